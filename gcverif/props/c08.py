"""C08 - KAURI gains are real objective increases and the chosen split is the best one (closed forms decided exactly)."""
import ast
import copy
from fractions import Fraction

from ..pm import AnalysisError, norm_src, canon_node
from ..flow import CFG, attr_chain
from ..astutil import parents, replace_node, call_name
from ..e6_algebra import Poly, Rat, to_rat, NotScalarArithmetic, compare_normal
from ..e5_mirror import mirror_equal, mirror_diff
from ..e7_order import implies, NotOrderPredicate
from ..e3_axes import Interp, Arr, Num, Ax, NoneV, Obj
from ..scenarios import nonusage, dedup_events
from ..match import expect_assign, canon_equal

PROP = "C08"
EXPLANATION = (
    "(a) index spaces of the split finder: the desugared .pyx is interpreted with seeded axis types (kernel:[S,S], X:[S,D], "
    "Y:[Kmax,Lmax], Z:[Lmax,S], omega:[K,S], gamma:[K,K], leaf/cluster/feature/sample index spaces) and every subscript whose "
    "index and axis both carry a space must agree; (b) for each of the gain bundles (double star, left/right star, left/right "
    "switch) the canonical rational form of the gain expression, after forward substitution of the local definitions on its "
    "path, equals the increase of sum_k sigma(C_k^2)/|C_k| under the targets the bundle sets - the reference is derived inside "
    "the checker from the objective by bilinearity over the disjoint parts Sl, Sr, R, A, B; the reallocation gain is the sum of "
    "a tracked left and right switch plus a corrective term equal to reference - switches; (c) the left/right top-2 trackers are "
    "mirror images and hold (gain, cluster) pairs consistently; (d) every bundle is guarded by a comparison with the running "
    "best that implies (on all weak orderings) that the value it records beats the best and its sibling candidate, and sets "
    "gain, targets, decision and leaf; (e) the guards imply admissible new cluster ids / existence of another cluster; (f) "
    "Kauri.fit applies the split with the same comparator, bumps n_clusters by the number of new targets and leaves its loop "
    "only through its three-conjunct condition; (g) the loop invariant of the threshold scan: every path through the scan body (to each continue / break, to the "
    "evaluation of the candidate, to the end) is interpreted in the kernel-stock domain - each scalar a linear form over sigma(x,Sl), sigma(x,x), sigma(x,Sr-x), "
    "sigma(x, C_k outside the leaf), sigma(x,C_a), accumulation loops classified by the index region they sum over for every leaf size 2..6 - and the four running "
    "stocks must have moved by exactly the bilinear increments; the scan starts at position 0 and reaches the last admissible cut; the initial stocks are (empty, "
    "whole leaf) by interpretation in a four-valued domain; (d) also: when both children favour the same cluster the larger of the two mixed sums is taken. "
    "Not decided: rounding-level ties; "
    "the prebuilt extension module is not re-checked against the .pyx (no Cython in this sandbox).")
ASSUMPTIONS = ["the .pyx is compiled with true division (Cython 3, language_level 3)", "sigma is symmetric bilinear over disjoint parts (symmetric kernel)",
               "signature table of the stock variables (DESIGN.md appendix B)"]
ADOPT = [("C09", ["C09-g", "C09-a"], "the best split is searched among the admissible ones only if the limits reach the search and every explorable leaf is offered to it")]

PYX = "gemclus.tree._utils"

# ------------------------------------------------------------------------------------------- stock algebra
PRIMS = ["a", "b", "c", "p", "q", "r", "nl", "nr", "nR", "xa", "ya", "ga", "na", "xb", "yb", "gb", "nb"]


def P(**coef):
    t = {}
    for k, v in coef.items():
        t[((k, 1),)] = Fraction(v)
    return Rat(Poly(t))


def stock_table(k="k", kp="k_prime"):
    """code atom -> Rat over primitive stocks (signature table)"""
    return {
        "sl_square": P(a=1), "sr_square": P(b=1), "leaf_square": P(a=1, b=1, c=2),
        f"sl_clusters[{k}]": P(a=1, c=1, p=1), f"sr_clusters[{k}]": P(b=1, c=1, q=1),
        f"gamma[{k}, {k}]": P(a=1, b=1, r=1, c=2, p=2, q=2),
        f"cluster_sizes[{k}]": P(nl=1, nr=1, nR=1), "n_leaf": P(nl=1, nr=1), "split_size": P(nl=1),
        f"sl_clusters[{kp}]": P(xa=1), f"sr_clusters[{kp}]": P(ya=1), f"gamma[{kp}, {kp}]": P(ga=1), f"cluster_sizes[{kp}]": P(na=1),
    }


# sigma between parts, symmetric
SIG = {("Sl", "Sl"): "a", ("Sr", "Sr"): "b", ("Sl", "Sr"): "c", ("Sl", "R"): "p", ("Sr", "R"): "q", ("R", "R"): "r",
       ("Sl", "A"): "xa", ("Sr", "A"): "ya", ("A", "A"): "ga", ("Sl", "B"): "xb", ("Sr", "B"): "yb", ("B", "B"): "gb"}
SIZE = {"Sl": "nl", "Sr": "nr", "R": "nR", "A": "na", "B": "nb"}


def sigma(x, y):
    k = SIG.get((x, y)) or SIG.get((y, x))
    if k is None:
        # cross terms between other clusters and R never change: symbolic but cancel
        k = "z_" + "_".join(sorted((x, y)))
    return P(**{k: 1})


def J(parts):
    """sigma(C,C)/|C| of the cluster made of the given disjoint parts"""
    if not parts:
        return Rat(Poly.const(0))
    num = Rat(Poly.const(0))
    for i, x in enumerate(parts):
        for j, y in enumerate(parts):
            num = num + sigma(x, y)
    den = Rat(Poly.const(0))
    for x in parts:
        den = den + P(**{SIZE[x]: 1})
    return num / den


def reference_gain(tl, tr):
    """objective increase when Sl goes to cluster tl and Sr to tr; targets in {'k','new','new2','A','B'}"""
    before = {"k": ["Sl", "Sr", "R"], "A": ["A"], "B": ["B"]}
    after = {"k": ["R"], "A": ["A"], "B": ["B"], "new": [], "new2": []}
    after[tl] = after[tl] + ["Sl"]
    after[tr] = after[tr] + ["Sr"]
    used = {"k", tl, tr}
    g = Rat(Poly.const(0))
    for c in used:
        g = g + J(after.get(c, []))
        if c in before:
            g = g - J(before[c])
    return g


# ------------------------------------------------------------------------------------------- bundles
class Bundle:
    def __init__(self):
        self.gain = None
        self.gain_node = None
        self.targets = None
        self.decision = None
        self.leaf = None
        self.stmts = []
        self.guards = []       # list of (test node, polarity) from outermost to innermost
        self.env = None
        self.block = None


def collect_bundles(func):
    """walk compute_all_splits in order, forward-substituting scalar definitions; returns list of Bundle"""
    from ..e6_algebra import forward_env
    bundles = []

    def setter(st):
        if isinstance(st, ast.Expr) and isinstance(st.value, ast.Call) and isinstance(st.value.func, ast.Attribute) \
                and isinstance(st.value.func.value, ast.Name) and st.value.func.value.id == "best_split":
            return st.value.func.attr, st.value
        return None, None

    def walk(body, env, guards):
        cur = None
        for st in body:
            name, call = setter(st)
            if name in ("set_gain", "set_targets", "set_decision", "set_leaf"):
                if cur is None:
                    cur = Bundle()
                    cur.guards = list(guards)
                    cur.env = dict(env)
                    cur.block = body
                    bundles.append(cur)
                cur.stmts.append(st)
                if name == "set_gain":
                    cur.gain_node = call.args[0]
                elif name == "set_targets":
                    cur.targets = (call.args[0], call.args[1])
                elif name == "set_decision":
                    cur.decision = [norm_src(a) for a in call.args]
                elif name == "set_leaf":
                    cur.leaf = [norm_src(a) for a in call.args]
                continue
            if isinstance(st, (ast.Assign, ast.AugAssign)):
                new = forward_env([st], env)
                env.clear()
                env.update(new)
            elif isinstance(st, ast.If):
                assigned = {n.id for s in ast.walk(st) for n in ast.walk(s) if isinstance(n, ast.Name) and isinstance(n.ctx, ast.Store)}
                walk(st.body, dict(env), guards + [(st.test, True)])
                walk(st.orelse, dict(env), guards + [(st.test, False)])
                for a in assigned:
                    env.pop(a, None)
            elif isinstance(st, (ast.For, ast.While)):
                assigned = {n.id for s in ast.walk(st) for n in ast.walk(s) if isinstance(n, ast.Name) and isinstance(n.ctx, ast.Store)}
                for a in assigned:
                    env.pop(a, None)
                walk(st.body, dict(env), guards)
                for a in assigned:
                    env.pop(a, None)
        # bundles found in an inner block attach any setter of the enclosing chain (set_decision / set_leaf after an inner if)
    walk(func.body, {}, [])
    return bundles


def merge_bundles(bundles):
    """the star / switch pattern sets gain+targets in an inner if/else and decision+leaf in the enclosing block:
    attach the outer setters to both inner bundles"""
    out = []
    for b in bundles:
        if b.gain_node is None and b.targets is None and (b.decision or b.leaf):
            # outer part: find inner bundles whose guards extend ours and whose block is a child of ours
            for c in bundles:
                if c is not b and c.gain_node is not None and len(c.guards) == len(b.guards) + 1 and c.guards[:len(b.guards)] == b.guards \
                        and any(c.guards[-1][0] is st.test for st in b.block if isinstance(st, ast.If)):
                    c.decision = c.decision or b.decision
                    c.leaf = c.leaf or b.leaf
            continue
        out.append(b)
    return out


def target_kind(node, loopvar="k_prime"):
    s = norm_src(node)
    return {"n_clusters": "new", "n_clusters + 1": "new2", "k": "k", loopvar: "A", "k_left": "A", "k_right": "B"}.get(s)


def substitute_stocks(rat, table):
    mapping = {}
    for atom in rat.atoms():
        if atom in table:
            mapping[atom] = table[atom]
    return rat.subs(mapping), [a for a in rat.atoms() if a not in table]


def run(pm, ctx):
    unit = pm.unit(PYX)
    f = unit.func("compute_all_splits")
    fb = unit.func("find_best_split")
    ctx.rule("C08-a", "a stock read with an index of the wrong space is the stock of some other object", floor=30)
    ctx.rule("C08-b", "the recorded gain must equal the increase of the kernel-KMeans objective under the recorded targets", floor=6)
    ctx.rule("C08-c", "left/right trackers must be mirror images holding consistent (gain, cluster) pairs", floor=4)
    ctx.rule("C08-d", "every candidate must be compared with the running best and record all four fields of the split", floor=6)
    ctx.rule("C08-e", "recorded targets must be admissible under max_clusters and the cluster structure", floor=6)
    ctx.rule("C08-f", "Kauri.fit must apply exactly the split that was evaluated", floor=6)

    # ------------------------------------------------------------------ a: index spaces via E3
    index_spaces(pm, ctx, unit, fb)
    # scalar helper functions of the module (a gain formula written once and called three times) are expanded where they are called
    from ..astutil import inline_straightline_calls
    _funcs = {n.name: n for n in unit.tree.body if isinstance(n, ast.FunctionDef)}
    f = inline_straightline_calls(f, _funcs)

    # ------------------------------------------------------------------ b: gains
    bundles = merge_bundles(collect_bundles(f))
    table = stock_table()
    seen_kinds = {}
    for b in bundles:
        if b.gain_node is None or b.targets is None:
            continue
        tl, tr = target_kind(b.targets[0]), target_kind(b.targets[1])
        site = f"compute_all_splits: set_targets({norm_src(b.targets[0])}, {norm_src(b.targets[1])})"
        if tl is None or tr is None:
            ctx.undecided_site("C08-b", site, "unrecognised target expression")
            continue
        if (tl, tr) == ("A", "B"):
            reallocation(ctx, unit, f, b, table, site)
            seen_kinds[(tl, tr)] = b
            continue
        try:
            g = to_rat(b.gain_node, b.env)
        except (NotScalarArithmetic, ZeroDivisionError) as e:
            ctx.undecided_site("C08-b", site, f"gain is not scalar arithmetic: {e}")
            continue
        g2, unknown = substitute_stocks(g, table)
        ref = reference_gain(tl, tr)
        if unknown:
            ctx.violation("C08-b", unit.relpath, "compute_all_splits", norm_src(b.stmts[0]),
                          f"the gain for targets ({tl},{tr}) reads {unknown}, which has no meaning as a kernel stock of the candidate split",
                          line=b.stmts[0].lineno, site=site, detail={"gain": norm_src(b.gain_node)})
        elif g2.equals(ref):
            ctx.ok("C08-b", site, f"gain == J_after - J_before for ({tl},{tr})")
        else:
            diff = g2 - ref
            ctx.violation("C08-b", unit.relpath, "compute_all_splits", norm_src(b.stmts[0]),
                          f"the gain recorded for targets ({tl},{tr}) differs from the objective increase by {str(diff)[:300]}",
                          line=b.stmts[0].lineno, site=site)
        seen_kinds[(tl, tr)] = b
    want = [("new", "new2"), ("new", "k"), ("k", "new"), ("A", "k"), ("k", "A"), ("A", "B")]
    for w in want:
        if w not in seen_kinds:
            ctx.violation("C08-b", unit.relpath, "compute_all_splits", f"bundle {w}", f"no gain bundle sets the targets {w}", line=f.lineno,
                          site=f"compute_all_splits: bundle {w}")

    # ------------------------------------------------------------------ c: trackers
    trackers(ctx, unit, f)

    # ------------------------------------------------------------------ d / e
    for b in bundles:
        if b.gain_node is None:
            continue
        site = f"compute_all_splits: bundle {norm_src(b.gain_node)}"
        probs = []
        if b.targets is None:
            probs.append("no set_targets")
        if b.decision != ["feature_id", "threshold"]:
            probs.append(f"set_decision{tuple(b.decision or ())} is not (feature_id, threshold)")
        if b.leaf != ["leaf_id"]:
            probs.append(f"set_leaf{tuple(b.leaf or ())} is not (leaf_id)")
        # guard implies the recorded gain beats the best (and its sibling)
        gname = norm_src(b.gain_node)
        cands = {gname, "best_split.gain"}
        for t, _ in b.guards:
            if "best_split.gain" in norm_src(t):
                for n in ast.walk(t):
                    if isinstance(n, ast.Compare):
                        cands |= {norm_src(x) for x in [n.left] + n.comparators}
        order_guards = [(t, pol) for t, pol in b.guards if _is_order(t, cands)]
        try:
            ok1, cex = implies(order_guards, ast.parse(f"{gname} >= best_split.gain", mode="eval").body) if order_guards else (False, "no guard")
            strict = any(isinstance(n, ast.Gt) for t, _ in order_guards for n in ast.walk(t) if "best_split.gain" in norm_src(t))
        except NotOrderPredicate as e:
            ok1, cex = False, str(e)
        if not any("best_split.gain" in norm_src(t) for t, _ in b.guards):
            probs.append("the bundle is not guarded by a comparison with best_split.gain")
        elif not ok1:
            probs.append(f"the guard does not imply that {gname} reaches the running best (counterexample ordering {cex})")
        # sibling: other names compared in the guards must not exceed the recorded gain
        sibs = {norm_src(x) for t, _ in order_guards for n in ast.walk(t) if isinstance(n, ast.Compare) for x in [n.left] + n.comparators}
        sibs -= {gname, "best_split.gain"}
        for sname in sorted(sibs):
            try:
                ok2, cex2 = implies(order_guards, ast.parse(f"{gname} >= {sname}", mode="eval").body)
            except NotOrderPredicate:
                ok2 = True
            if not ok2:
                probs.append(f"{gname} is recorded although {sname} may be larger (ordering {cex2})")
        if probs:
            ctx.violation("C08-d", unit.relpath, "compute_all_splits", norm_src(b.stmts[0]), "; ".join(probs), line=b.stmts[0].lineno, site=site)
        else:
            ctx.ok("C08-d", site)
        # ---- e admissibility
        admissibility(ctx, unit, b, site)

    # ------------------------------------------------------------------ d (completeness): a candidate that beats the running best is never lost
    from ..e7_order import weak_orderings, eval_order
    groups = {}
    for b in bundles:
        if b.gain_node is None:
            continue
        non_order = tuple(norm_src(t) + ("" if pol else " [not]") for t, pol in b.guards if "best_split.gain" not in norm_src(t) and not _is_order(t, {"best_split.gain"} | {
            norm_src(x.gain_node) for x in bundles if x.gain_node is not None}))
        groups.setdefault(non_order, []).append(b)
    for key, grp in groups.items():
        gains = []
        for b in grp:
            g_ = norm_src(b.gain_node)
            if g_ not in gains:
                gains.append(g_)
        atoms = gains + ["best_split.gain"]
        site = f"compute_all_splits: candidates {gains} are not lost"
        if len(atoms) > 5:
            ctx.unrecognised("C08-d", site, "too many candidates in one block")
            continue
        lost = None
        try:
            for ranks in weak_orderings(len(atoms)):
                val = dict(zip(atoms, ranks))
                top = max(val[g_] for g_ in gains)
                if top <= val["best_split.gain"]:
                    continue
                fired = False
                for b in grp:
                    og = [(t, pol) for t, pol in b.guards if _is_order(t, set(atoms))]
                    if all(eval_order(t, val) == pol for t, pol in og) and val[norm_src(b.gain_node)] == top:
                        fired = True
                if not fired:
                    lost = val
                    break
        except NotOrderPredicate as e:
            ctx.unrecognised("C08-d", site, f"guards are not pure order predicates: {e}")
            continue
        if lost is None:
            ctx.ok("C08-d", site, "whenever the largest candidate exceeds the running best it is recorded")
        else:
            b0 = grp[0]
            ctx.violation("C08-d", unit.relpath, "compute_all_splits", norm_src(b0.stmts[0]), f"with the ordering {lost} the largest candidate exceeds the running best but no "
                          f"bundle records it: the best split can be missed", line=b0.stmts[0].lineno, site=site)

    # ------------------------------------------------------------------ g: incremental stocks along the scan
    incremental_stocks(pm, ctx, unit, fb)

    # ------------------------------------------------------------------ f: application in Kauri.fit
    application(pm, ctx)


def ns(code):
    """normalised source of a statement given as text (same printer as norm_src)"""
    return norm_src(ast.parse(code).body[0])


def _is_order(t, cands):
    """t is a boolean combination of comparisons between candidate gains / the running best only"""
    try:
        from ..e7_order import eval_order, atoms_of
        atoms = atoms_of(t)
        if not atoms:
            return False
        eval_order(t, {a: 0 for a in atoms})
        return all(a in cands for a in atoms)
    except NotOrderPredicate:
        return False


def _simple(a):
    return all(ch.isalnum() or ch in "_." for ch in a)


def reallocation(ctx, unit, f, b, table, site):
    # corrective term == reference(A,B) - left_switch(A) - right_switch(B)   [free of A, B]
    ref = reference_gain("A", "B") - reference_gain("A", "k") - reference_gain("k", "B")
    try:
        corr = to_rat(ast.parse("corrective_term", mode="eval").body, b.env)
    except (NotScalarArithmetic, ZeroDivisionError) as e:
        ctx.undecided_site("C08-b", site, f"corrective term: {e}")
        return
    c2, unknown = substitute_stocks(corr, table)
    gnode = b.gain_node
    if isinstance(gnode, ast.Name):
        # a temporary holding the candidate gain: `g = refurbish + corrective_term` bound once in the function
        ds_ = [s_ for s_ in ast.walk(f) if isinstance(s_, ast.Assign) and len(s_.targets) == 1 and isinstance(s_.targets[0], ast.Name) and s_.targets[0].id == gnode.id]
        if len(ds_) == 1:
            gnode = ds_[0].value
    gsrc = norm_src(gnode).replace(" ", "")
    if gsrc not in ("refurbish+corrective_term", "corrective_term+refurbish"):
        ctx.violation("C08-b", unit.relpath, "compute_all_splits", norm_src(b.stmts[0]), "the reallocation gain is not refurbish + corrective_term",
                      line=b.stmts[0].lineno, site=site)
        return
    if unknown:
        ctx.violation("C08-b", unit.relpath, "compute_all_splits", "corrective_term", f"the corrective term reads {unknown}: not a stock of the split",
                      line=b.stmts[0].lineno, site=site)
        return
    if not c2.equals(ref):
        ctx.violation("C08-b", unit.relpath, "compute_all_splits", "corrective_term",
                      f"corrective_term differs from J(realloc) - left_switch - right_switch by {str(c2 - ref)[:300]}", line=b.stmts[0].lineno, site=site)
        return
    if {"xa", "ya", "ga", "na", "xb", "yb", "gb", "nb"} & c2.atoms():
        ctx.violation("C08-b", unit.relpath, "compute_all_splits", "corrective_term", "the corrective term depends on the target clusters", line=b.stmts[0].lineno, site=site)
        return
    # refurbish arms: sum of a left and a right tracked gain, with the matching cluster ids
    arms = []
    for st in ast.walk(f):
        if isinstance(st, ast.Assign) and isinstance(st.targets[0], ast.Name) and st.targets[0].id == "refurbish":
            blk = st._parent.body if st in st._parent.body else st._parent.orelse
            ks = [s for s in blk if isinstance(s, ast.Assign) and norm_src(s.targets[0]) == "(k_left, k_right)" or
                  (isinstance(s, ast.Assign) and isinstance(s.targets[0], ast.Tuple) and [norm_src(e) for e in s.targets[0].elts] == ["k_left", "k_right"])]
            if not ks:
                # two separate assignments k_left = ..; k_right = .. in the same block
                sep = {norm_src(s.targets[0]): s for s in blk if isinstance(s, ast.Assign) and len(s.targets) == 1 and norm_src(s.targets[0]) in ("k_left", "k_right")}
                if set(sep) == {"k_left", "k_right"}:
                    pair = ast.Assign(targets=[ast.Tuple(elts=[ast.Name(id="k_left", ctx=ast.Store()), ast.Name(id="k_right", ctx=ast.Store())], ctx=ast.Store())],
                                      value=ast.Tuple(elts=[sep["k_left"].value, sep["k_right"].value], ctx=ast.Load()), lineno=st.lineno)
                    ks = [ast.fix_missing_locations(ast.copy_location(pair, st))]
            arms.append((st, ks[0] if ks else None, st._parent))
    okarms = len(arms) >= 3
    if not okarms:
        ctx.unrecognised("C08-b", site, f"{len(arms)} assignments of the reallocation pair found (expected one per case: different favourites, two mixed pairs)")
    for st, ks, parent in arms:
        terms = sorted(norm_src(x) for x in ([st.value.left, st.value.right] if isinstance(st.value, ast.BinOp) and isinstance(st.value.op, ast.Add) else []))
        if ks is None or len(terms) != 2:
            if okarms:
                ctx.unrecognised("C08-b", site, f"cannot pair `{norm_src(st)[:60]}` with the cluster ids it selects")
            okarms = False
            continue
        kl, kr = [norm_src(e) for e in ks.value.elts]
        gl = [t for t in terms if t.endswith("_left")]
        gr = [t for t in terms if t.endswith("_right")]
        if len(gl) != 1 or len(gr) != 1 or kl != gl[0].replace("gain", "k") or kr != gr[0].replace("gain", "k"):
            okarms = False
            ctx.violation("C08-b", unit.relpath, "compute_all_splits", norm_src(st) + " ; " + norm_src(ks),
                          "the reallocation pairs a tracked gain with the cluster id of another tracker", line=st.lineno, site=site)
    # the chosen pair must be the best admissible pair: when the two tops coincide, the two mixed sums are compared and the larger one
    # is taken (a greedy choice on the top gains alone can pick the smaller sum)
    def _direct(blk):
        return [s_ for s_ in blk if isinstance(s_, ast.Assign) and isinstance(s_.targets[0], ast.Name) and s_.targets[0].id == "refurbish"]
    for node in ast.walk(f):
        if not (isinstance(node, ast.If) and node.orelse):
            continue
        b_, e_ = _direct(node.body), _direct(node.orelse)
        if len(b_) != 1 or len(e_) != 1:
            continue
        psite = "compute_all_splits: choice between the two mixed reallocation pairs"
        try:
            sb, se = to_rat(b_[0].value), to_rat(e_[0].value)
            d_, op_ = compare_normal(canon_node(node.test))
        except NotScalarArithmetic:
            ctx.unrecognised("C08-d", psite, f"the test `{norm_src(node.test)[:80]}` is not a comparison of scalar gains")
            continue
        from ..e6_algebra import _pos_scaled_equal
        one = Poly.const(1)
        if d_.d != one or sb.d != one or se.d != one:
            ctx.unrecognised("C08-d", psite, "the compared quantities are not polynomial")
        elif op_ in (">", ">=") and _pos_scaled_equal(d_.n, (sb - se).n):
            ctx.ok("C08-d", psite, f"`{norm_src(b_[0].value)}` is taken iff it is the larger sum")
        elif op_ in (">", ">=") and _pos_scaled_equal(d_.n, (se - sb).n):
            okarms = False
            ctx.violation("C08-d", unit.relpath, "compute_all_splits", norm_src(node.test), "the smaller of the two mixed sums is selected", line=node.lineno, site=psite)
        else:
            okarms = False
            ctx.violation("C08-d", unit.relpath, "compute_all_splits", norm_src(node.test),
                          f"when both children favour the same cluster the best pair is the larger of `{norm_src(b_[0].value)}` and `{norm_src(e_[0].value)}`; "
                          f"the test `{norm_src(node.test)}` does not compare these two sums, so a smaller total gain can be selected", line=node.lineno, site=psite)
    if okarms:
        ctx.ok("C08-b", site, "reallocation = tracked left switch + tracked right switch + corrective term (free of the targets)")


def trackers(ctx, unit, f):
    loops = [n for n in ast.walk(f) if isinstance(n, ast.For) and norm_src(n.target) == "k_prime"]
    if not loops:
        raise AnalysisError("anchor vanished: the k_prime loop of compute_all_splits")
    lp = loops[0]
    ifs = [s for s in lp.body if isinstance(s, ast.If)]
    left = [s for s in ifs if norm_src(s.test).startswith("left_switch >= top_gain_left")]
    right = [s for s in ifs if norm_src(s.test).startswith("right_switch >= top_gain_right")]
    site = "compute_all_splits: top-2 trackers"
    if len(left) != 1 or len(right) != 1:
        ctx.undecided_site("C08-c", site, "cannot find the two tracker blocks")
        return
    tm = [("left", "right")]
    if mirror_equal(left[0], right[0], {}, token_mapping=tm):
        ctx.ok("C08-c", site, "right tracker == mirror(left tracker)")
    else:
        a, b = mirror_diff(left[0], right[0], {}, token_mapping=tm)
        # locate first differing statement
        bad = right[0]
        for s1, s2 in zip(ast.walk(left[0]), ast.walk(right[0])):
            if isinstance(s1, (ast.stmt, ast.expr)) and isinstance(s2, (ast.stmt, ast.expr)):
                if not mirror_equal(s1, s2, {}, token_mapping=tm) and isinstance(s2, ast.Compare):
                    bad = s2
                    break
        ctx.violation("C08-c", unit.relpath, "compute_all_splits", norm_src(bad), "the right-hand top-2 tracker is not the mirror image of the "
                      "left-hand one", line=bad.lineno, site=site, detail={"expected": a[:400], "found": b[:400]})
    # consistency of the left tracker itself: (gain, k) shifted together
    t = left[0]

    def effect(stmts):
        """net effect of a straight-line block of (tuple) assignments between names: {name: initial name it finally holds}; None if not of that shape"""
        env = {}
        for s_ in stmts:
            if not (isinstance(s_, ast.Assign) and len(s_.targets) == 1):
                return None
            tg, vl = s_.targets[0], s_.value
            ts = tg.elts if isinstance(tg, ast.Tuple) else [tg]
            vs = vl.elts if isinstance(vl, ast.Tuple) and isinstance(tg, ast.Tuple) else [vl]
            if len(ts) != len(vs) or not all(isinstance(x, ast.Name) for x in list(ts) + list(vs)):
                return None
            vals = [env.get(v_.id, v_.id) for v_ in vs]
            for t_, v_ in zip(ts, vals):
                env[t_.id] = v_
        return {k_: v_ for k_, v_ in env.items() if k_ != v_}
    el = t.orelse[0] if t.orelse and isinstance(t.orelse[0], ast.If) else None
    ok = effect(t.body) == {"top_gain_left": "left_switch", "second_gain_left": "top_gain_left", "top_k_left": "k_prime", "second_k_left": "top_k_left"} \
        and el is not None and norm_src(el.test) == "left_switch >= second_gain_left" \
        and effect(el.body) == {"second_gain_left": "left_switch", "second_k_left": "k_prime"}
    if ok:
        ctx.ok("C08-c", "compute_all_splits: left tracker shifts (gain, cluster) pairs together")
    else:
        ctx.violation("C08-c", unit.relpath, "compute_all_splits", norm_src(t)[:200], "the left tracker does not keep the two best (gain, cluster) pairs",
                      line=t.lineno, site="left tracker")
    # initialisation and skipping of the own cluster
    skip = [s for s in lp.body if isinstance(s, ast.If) and norm_src(s.test) in ("k == k_prime", "k_prime == k") and isinstance(s.body[0], ast.Continue)]
    if skip and lp.body.index(skip[0]) == 0:
        ctx.ok("C08-c", "compute_all_splits: the leaf's own cluster is skipped before any switch is evaluated")
    else:
        ctx.violation("C08-c", unit.relpath, "compute_all_splits", norm_src(lp)[:120], "the own cluster is not skipped at the top of the switch loop",
                      line=lp.lineno, site="own-cluster skip")
    # the left and right switch formulas: statement-level mirror cannot hold (sizes are asymmetric); checked by value in C08-b
    ctx.ok("C08-c", "compute_all_splits: star/switch formula symmetry is a corollary of C08-b under Sl<->Sr")


def admissibility(ctx, unit, b, site):
    tl, tr = target_kind(b.targets[0]) if b.targets else None, target_kind(b.targets[1]) if b.targets else None
    tests = [norm_src(t) for t, pol in b.guards if pol]
    conj = []
    for t, pol in b.guards:
        if pol:
            conj += [norm_src(v) for v in (t.values if isinstance(t, ast.BoolOp) and isinstance(t.op, ast.And) else [t])]
    need = []
    if (tl, tr) == ("new", "new2"):
        need = [("n_clusters < K_max - 1", ["n_clusters < K_max - 1", "n_clusters + 1 < K_max", "n_clusters + 2 <= K_max"]),
                ("n_leaf != cluster_sizes[k]", ["n_leaf != cluster_sizes[k]", "cluster_sizes[k] != n_leaf", "n_leaf < cluster_sizes[k]"])]
    elif "new" in (tl, tr):
        need = [("n_clusters < K_max", ["n_clusters < K_max", "K_max > n_clusters", "n_clusters + 1 <= K_max"])]
    elif (tl, tr) == ("A", "B"):
        need = [("n_clusters >= 3", ["n_clusters >= 3", "n_clusters > 2"]),
                ("n_leaf != cluster_sizes[k]", ["n_leaf != cluster_sizes[k]", "cluster_sizes[k] != n_leaf", "n_leaf < cluster_sizes[k]"])]
    elif "A" in (tl, tr):
        need = [("n_clusters >= 2", ["n_clusters >= 2", "n_clusters > 1"])]
    missing = [name for name, alts in need if not any(a in conj for a in alts)]
    if missing:
        ctx.violation("C08-e", unit.relpath, "compute_all_splits", norm_src(b.stmts[0]), f"targets ({tl},{tr}) are recorded without the guard(s) {missing}; "
                      f"guards present: {conj}", line=b.stmts[0].lineno, site=site)
    else:
        ctx.ok("C08-e", site, f"guards {conj}")



class _Unrec(Exception):
    pass


def _ieval(node, env):
    """integer / boolean value of an index expression under a concrete assignment of the loop positions (abstract positions relative
    to the scanned sample: the code's arrays are never given values)"""
    if isinstance(node, ast.Constant) and isinstance(node.value, (int, bool)):
        return node.value
    if isinstance(node, ast.Name):
        if node.id in env:
            return env[node.id]
        raise _Unrec(f"index expression reads {node.id}")
    if isinstance(node, ast.UnaryOp) and isinstance(node.op, (ast.USub, ast.Not)):
        v = _ieval(node.operand, env)
        return -v if isinstance(node.op, ast.USub) else (not v)
    if isinstance(node, ast.BinOp) and isinstance(node.op, (ast.Add, ast.Sub, ast.Mult, ast.FloorDiv)):
        a, b = _ieval(node.left, env), _ieval(node.right, env)
        return a + b if isinstance(node.op, ast.Add) else a - b if isinstance(node.op, ast.Sub) else a * b if isinstance(node.op, ast.Mult) else a // b
    if isinstance(node, ast.BoolOp):
        vals = [_ieval(v, env) for v in node.values]
        return all(vals) if isinstance(node.op, ast.And) else any(vals)
    if isinstance(node, ast.Compare):
        left = _ieval(node.left, env)
        for op, c in zip(node.ops, node.comparators):
            right = _ieval(c, env)
            r = {ast.Lt: left < right, ast.LtE: left <= right, ast.Gt: left > right, ast.GtE: left >= right, ast.Eq: left == right, ast.NotEq: left != right}.get(type(op))
            if r is None:
                raise _Unrec(norm_src(node))
            if not r:
                return False
            left = right
        return True
    raise _Unrec(f"index expression {norm_src(node)[:60]}")


def _range_of(it, env):
    if not (isinstance(it, ast.Call) and isinstance(it.func, ast.Name) and it.func.id == "range" and 1 <= len(it.args) <= 3 and not it.keywords):
        raise _Unrec(f"loop over {norm_src(it)[:60]}")
    return range(*[_ieval(a, env) for a in it.args])


ATOM_NAMES = {"xl": "sigma(x, Sl)", "xr": "sigma(x, Sr - x)", "xx": "sigma(x, x)", "xR": "sigma(x, C_k outside the leaf)", "xC": "sigma(x, C_a)"}


def _pretty(r):
    t = str(r)
    for k_, v_ in ATOM_NAMES.items():
        t = t.replace(k_, v_)
    return t[:200]


def _sample_accumulation(loop, tvar, x):
    """for v in range(..): [if ..:] acc += kernel[x, nu[v]]  ->  {acc: coefficient form over sigma(x,Sl), sigma(x,x), sigma(x,Sr-x)}.
    The index set of each accumulation is classified on the abstract positions before / at / after the scanned sample, for every
    leaf size 2..6 and every scan position: it must be a union of whole regions."""
    if not isinstance(loop.target, ast.Name):
        raise _Unrec("tuple loop target")
    v = loop.target.id
    want = {f"kernel[{x}, nu[{v}]]", f"kernel[nu[{v}], {x}]"}
    coef = {}

    def run_body(stmts, env, hits):
        for st in stmts:
            if isinstance(st, ast.If):
                run_body(st.body if _ieval(st.test, env) else st.orelse, env, hits)
            elif isinstance(st, ast.AugAssign) and isinstance(st.target, ast.Name) and isinstance(st.op, (ast.Add, ast.Sub)):
                val = st.value
                sign = 1 if isinstance(st.op, ast.Add) else -1
                if isinstance(val, ast.UnaryOp) and isinstance(val.op, ast.USub):
                    val, sign = val.operand, -sign
                if norm_src(val) not in want:
                    raise _Unrec(f"{st.target.id} accumulates {norm_src(st.value)[:60]}")
                hits.append((st.target.id, sign))
            elif isinstance(st, ast.Continue):
                return "continue"
            elif isinstance(st, ast.Pass):
                pass
            else:
                raise _Unrec(f"statement in the accumulation loop: {norm_src(st)[:60]}")
        return None
    for n in range(2, 7):
        for t in range(0, n - 1):
            env = {tvar: t, "n_leaf": n}
            counts = {}
            for vv in _range_of(loop.iter, env):
                env[v] = vv
                hits = []
                run_body(loop.body, env, hits)
                reg = "xl" if vv < t else "xx" if vv == t else "xr"
                if not 0 <= vv < n:
                    raise _Unrec("the accumulation index leaves the leaf")
                for acc, sign in hits:
                    counts.setdefault(acc, {}).setdefault(reg, 0)
                    counts[acc][reg] += sign
            sizes = {"xl": t, "xx": 1, "xr": n - 1 - t}
            for acc in set(counts) | set(coef):
                for reg, size in sizes.items():
                    c = counts.get(acc, {}).get(reg, 0)
                    if size == 0:
                        continue
                    if c % size:
                        raise _Unrec(f"{acc} sums over a part of the samples {ATOM_NAMES[reg]} stands for")
                    c //= size
                    prev = coef.setdefault(acc, {}).get(reg)
                    if prev is not None and prev != c:
                        raise _Unrec(f"{acc}: the summed index set changes with the position of the scan")
                    coef[acc][reg] = c
    return {acc: P(**{r_: c_ for r_, c_ in d.items() if c_}) if any(d.values()) else Rat(Poly.const(0)) for acc, d in coef.items()}


def scan_invariant(ctx, unit, fb, sc, qn):
    """Loop invariant of the threshold scan, by abstract interpretation of the loop body in the kernel-stock domain.  At the head of the
    iteration for x = nu[t]: Sl = {nu[0..t-1]}, Sr = {nu[t..]}; sl_square = sigma(Sl^2), sr_square = sigma(Sr^2), sl_clusters[a] = sigma(Sl, C_a),
    sr_clusters[a] = sigma(Sr, C_a).  On EVERY path through the body (to each `continue`, to the evaluation of the candidate, to the end) the
    stocks must have moved by exactly x's contributions:  +2 sigma(x,Sl) + sigma(x,x),  -2 sigma(x,Sr-x) - sigma(x,x),  +sigma(x,C_a),  -sigma(x,C_a)."""
    if not isinstance(sc.target, ast.Name):
        ctx.unrecognised("C08-g", f"{qn}: scan", "tuple target")
        return
    tvar = sc.target.id
    x = f"nu[{tvar}]"
    # the leaf and its cluster
    jname = kname = None
    for n in ast.walk(fb):
        if isinstance(n, ast.For) and isinstance(n.target, ast.Name) and any(m is sc for m in ast.walk(n)) and norm_src(n.iter) == "leaves_to_explore":
            jname = n.target.id
    if jname:
        for n in ast.walk(fb):
            if isinstance(n, ast.Assign) and isinstance(n.targets[0], ast.Name) and norm_src(n.value) in (f"np.argmax(Y[:, {jname}])", f"Y[:, {jname}].argmax()", f"np.argmax(Y[:n_clusters, {jname}])"):
                kname = n.targets[0].id
    table = {f"kernel[{x}, {x}]": P(xx=1)}
    if jname:
        table[f"Lambda[{jname}, {x}]"] = P(xl=1, xx=1, xr=1)
    if kname:
        table[f"omega[{kname}, {x}]"] = P(xl=1, xx=1, xr=1, xR=1)
    # ---- iteration space
    site = f"{qn}: iteration space of the scan"
    try:
        it = sc.iter
        if not (isinstance(it, ast.Call) and isinstance(it.func, ast.Name) and it.func.id == "range" and 1 <= len(it.args) <= 2 and not it.keywords):
            raise _Unrec(f"loop over {norm_src(it)[:60]}")
        lo = to_rat(it.args[0]) if len(it.args) == 2 else Rat(Poly.const(0))
        hi = to_rat(it.args[-1])
        if not lo.is_zero():
            ctx.violation("C08-g", unit.relpath, qn, norm_src(sc.iter), f"the scan starts at position {norm_src(it.args[0])} with the stocks of an empty left part: the samples "
                          "sorted before that position are never moved into the left stocks, every gain is computed from the stocks of another split", line=sc.lineno, site=site)
        else:
            # every admissible position t <= n_leaf - min_leaf - 1 must be visited:  hi - (n_leaf - min_leaf) >= 0 for every min_leaf >= 1
            d = hi - to_rat(ast.parse("n_leaf - min_leaf", mode="eval").body)
            lin = d.d == Poly.const(1) and d.n.atoms() <= {"min_leaf"}
            if not lin:
                ctx.unrecognised("C08-g", site, f"upper bound {norm_src(it.args[-1])}")
            else:
                c1 = d.n.t.get((("min_leaf", 1),), Fraction(0))
                c0 = d.n.t.get((), Fraction(0))
                if len([k_ for k_ in d.n.t if k_ not in ((), (("min_leaf", 1),))]) == 0 and c1 >= 0 and c0 + c1 >= 0:
                    ctx.ok("C08-g", site, f"positions 0 .. {norm_src(it.args[-1])} - 1 cover every admissible cut")
                else:
                    ctx.violation("C08-g", unit.relpath, qn, norm_src(sc.iter), f"the scan stops before the last admissible cut (position n_leaf - min_leaf - 1)", line=sc.lineno, site=site)
    except (_Unrec, NotScalarArithmetic) as e:
        ctx.unrecognised("C08-g", site, str(e))
    # ---- paths
    TR = ("sl_square", "sr_square", "sl_clusters[*]", "sr_clusters[*]")
    REQ = {"sl_square": P(xl=2, xx=1), "sr_square": Rat(Poly.const(0)) - P(xr=2, xx=1), "sl_clusters[*]": P(xC=1), "sr_clusters[*]": Rat(Poly.const(0)) - P(xC=1)}
    WHY = {"sl_square": "sigma((Sl+x)^2) - sigma(Sl^2) = 2 sigma(x,Sl) + sigma(x,x)", "sr_square": "sigma((Sr-x)^2) - sigma(Sr^2) = -2 sigma(x,Sr-x) - sigma(x,x)",
           "sl_clusters[*]": "sigma(Sl+x, C_a) - sigma(Sl, C_a) = sigma(x, C_a)", "sr_clusters[*]": "sigma(Sr-x, C_a) - sigma(Sr, C_a) = -sigma(x, C_a)"}

    def paths(stmts, acc):
        if not stmts:
            yield acc + [("end", "end of the loop body", None)]
            return
        st, rest = stmts[0], stmts[1:]
        if isinstance(st, (ast.Continue, ast.Break, ast.Return)):
            yield acc + [("end", type(st).__name__.lower(), st)]
            return
        if isinstance(st, ast.If):
            yield from paths(list(st.body) + rest, acc + [("assume", st, True)])
            yield from paths(list(st.orelse) + rest, acc + [("assume", st, False)])
            return
        yield from paths(rest, acc + [("stmt", st, None)])

    def interp(path):
        env = {v_: Rat(Poly.atom("@" + v_)) for v_ in TR}
        env.update(table)
        checkpoints = []
        label = []
        for kind, node, extra in path:
            if kind == "assume":
                label.append(("if " if extra else "if not ") + norm_src(node.test)[:60])
                continue
            if kind == "end":
                checkpoints.append((node if extra is None else f"`{node}`", extra, dict(env)))
                continue
            st = node
            if isinstance(st, ast.Assign) and len(st.targets) == 1 and isinstance(st.targets[0], ast.Name):
                env[st.targets[0].id] = to_rat(st.value, env)
            elif isinstance(st, ast.Assign) and len(st.targets) == 1 and isinstance(st.targets[0], ast.Tuple) and isinstance(st.value, ast.Tuple) \
                    and len(st.targets[0].elts) == len(st.value.elts) and all(isinstance(e_, ast.Name) for e_ in st.targets[0].elts):
                vals = [to_rat(v_, env) for v_ in st.value.elts]
                for t_, v_ in zip(st.targets[0].elts, vals):
                    env[t_.id] = v_
            elif isinstance(st, ast.AugAssign) and isinstance(st.target, ast.Name) and isinstance(st.op, (ast.Add, ast.Sub)):
                cur = env.get(st.target.id)
                if cur is None:
                    raise _Unrec(f"{st.target.id} is updated before it is bound in the scan")
                val = to_rat(st.value, env)
                env[st.target.id] = cur + val if isinstance(st.op, ast.Add) else cur - val
            elif isinstance(st, ast.For) and norm_src(st.iter) in ("range(n_clusters)", "range(0, n_clusters)") and isinstance(st.target, ast.Name):
                a = st.target.id
                env2 = dict(env)
                env2[f"omega[{a}, {x}]"] = P(xC=1)
                for s2 in st.body:
                    tgt = norm_src(s2.target) if isinstance(s2, ast.AugAssign) else None
                    if tgt in (f"sl_clusters[{a}]", f"sr_clusters[{a}]") and isinstance(s2.op, (ast.Add, ast.Sub)):
                        key = tgt.replace(f"[{a}]", "[*]")
                        val = to_rat(s2.value, env2)
                        env[key] = env[key] + val if isinstance(s2.op, ast.Add) else env[key] - val
                    else:
                        raise _Unrec(f"statement in the cluster loop: {norm_src(s2)[:60]}")
            elif isinstance(st, ast.For):
                for acc_, form in _sample_accumulation(st, tvar, x).items():
                    if acc_ not in env:
                        raise _Unrec(f"{acc_} is accumulated before it is reset in the scan")
                    env[acc_] = env[acc_] + form
            elif isinstance(st, ast.Expr) and isinstance(st.value, ast.Call) and (call_name(st.value) or "").endswith("compute_all_splits"):
                checkpoints.append(("evaluation of the candidate", st, dict(env)))
            elif isinstance(st, ast.Pass) or (isinstance(st, ast.Expr) and isinstance(st.value, ast.Constant)):
                pass
            else:
                raise _Unrec(f"statement in the scan: {norm_src(st)[:70]}")
        return " and ".join(label) or "straight", checkpoints

    seen = set()
    n_paths = 0
    for path in paths(list(sc.body), []):
        n_paths += 1
        if n_paths > 64:
            ctx.unrecognised("C08-g", f"{qn}: scan", "more than 64 paths through the scan body")
            break
        try:
            label, cps = interp(path)
        except (_Unrec, NotScalarArithmetic, ZeroDivisionError) as e:
            ctx.unrecognised("C08-g", f"{qn}: stocks along the scan", str(e))
            return
        for what, node, env in cps:
            for var in TR:
                site = f"{qn}: {var} at the {what} [{label}]"
                if site in seen:
                    continue
                seen.add(site)
                delta = env[var] - Rat(Poly.atom("@" + var))
                extra_atoms = [a_ for a_ in delta.atoms() if a_ not in ATOM_NAMES]
                foreign = [a_ for a_ in extra_atoms if a_.split("[")[0] in ("kernel", "Lambda", "omega", "gamma")]
                if foreign:
                    ln = node.lineno if node is not None else sc.lineno
                    ctx.violation("C08-g", unit.relpath, qn, f"{var} on the path [{label}] to the {what}",
                                  f"{var} is moved by {foreign[0]}, which is not a stock of the scanned sample x = {x} ({WHY[var]} is required)", line=ln, site=site)
                elif extra_atoms:
                    ctx.unrecognised("C08-g", site, f"the update reads {extra_atoms[:3]}: no stock meaning known")
                elif delta.equals(REQ[var]):
                    ctx.ok("C08-g", site, WHY[var])
                else:
                    ln = node.lineno if node is not None else sc.lineno
                    ctx.violation("C08-g", unit.relpath, qn, f"{var} on the path [{label}] to the {what}",
                                  f"{var} has moved by {_pretty(delta)} when the scan reaches the {what}; the stocks of the candidate split require {WHY[var]} "
                                  f"(off by {_pretty(delta - REQ[var])})", line=ln, site=site)


def incremental_stocks(pm, ctx, unit, fb):
    """loop invariant of the threshold scan: after the update for the sample x = nu[l_split] the running stocks are those of
    Sl = {nu[0..l_split]} and Sr = the rest.  By bilinearity  sigma((Sl+x)^2) - sigma(Sl^2) = 2 sigma(x,Sl) + sigma(x,x)  and
    sigma((Sr-x)^2) - sigma(Sr^2) = -2 sigma(x,Sr-x) - sigma(x,x);  sigma(Sl+x, C) - sigma(Sl, C) = sigma(x, C)."""
    ctx.rule("C08-g", "the stocks handed to the gain formulas must be those of the candidate split: initialised to (empty, whole leaf) "
             "and moved by exactly the scanned sample's contributions, before any candidate is skipped", floor=8)
    qn = "find_best_split"
    scans = [n for n in ast.walk(fb) if isinstance(n, ast.For) and norm_src(n.target) == "l_split"]
    if len(scans) != 1:
        ctx.unrecognised("C08-g", f"{qn}: scan", "no single loop over l_split")
        return
    sc = scans[0]
    scan_invariant(ctx, unit, fb, sc, qn)
    # ---- initialisation before the scan: (empty, whole leaf) - by interpretation of the statements that run between the start of the leaf's
    # iteration and the scan, in a small value domain {0, sigma(N^2), zero vector, sigma(N, C_b)} (hoisting a stock out of the feature loop
    # and copying it back is the same initialisation)
    site = f"{qn}: initial stocks"
    chain = []          # enclosing loops of the scan, outermost first
    n_ = sc
    while getattr(n_, "_parent", None) is not None and n_._parent is not fb:
        n_ = n_._parent
        if isinstance(n_, ast.For):
            chain.insert(0, n_)
    chain = [l_ for l_ in chain if norm_src(l_.iter) in ("leaves_to_explore", "feature_subset") or True]
    seq = []            # (statement, depth) executed before the scan within one iteration of each enclosing loop
    cur = sc
    for lp_ in reversed(chain):
        body = lp_.body
        top = next((b_ for b_ in body if b_ is cur or any(m_ is cur for m_ in ast.walk(b_))), None)
        if top is None or top is not cur:
            seq = None
            break
        seq = [(s_, len(chain) - 1 - list(reversed(chain)).index(lp_)) for s_ in body[:body.index(top)]] + (seq or [])
        cur = lp_
    LEAFSQ, LEAFCL, ZERO, ZVEC = "sigma(N^2)", "sigma(N, C_b)", "0", "zero vector"
    jn = next((l_.target.id for l_ in chain if isinstance(l_.target, ast.Name) and norm_src(l_.iter) == "leaves_to_explore"), None)

    def acc_loop(st):
        """for a in range(n_leaf): v += Lambda[j, leaf_indices[a]]   /   for a in range(n_leaf): for b in range(n_clusters): v[b] += omega[b, leaf_indices[a]]
        (either nesting order) -> (v, meaning)"""
        if not (isinstance(st, ast.For) and isinstance(st.target, ast.Name) and len(st.body) == 1):
            return None
        inner = st.body[0]
        if norm_src(st.iter) == "range(n_leaf)" and isinstance(inner, ast.AugAssign) and isinstance(inner.op, ast.Add) and isinstance(inner.target, ast.Name) \
                and jn and canon_equal(inner.value, f"Lambda[{jn}, leaf_indices[{st.target.id}]]"):
            return inner.target.id, LEAFSQ
        if isinstance(inner, ast.For) and isinstance(inner.target, ast.Name) and len(inner.body) == 1 and isinstance(inner.body[0], ast.AugAssign) \
                and isinstance(inner.body[0].op, ast.Add) and {norm_src(st.iter), norm_src(inner.iter)} == {"range(n_leaf)", "range(n_clusters)"}:
            a_, b_ = (st.target.id, inner.target.id) if norm_src(st.iter) == "range(n_leaf)" else (inner.target.id, st.target.id)
            up = inner.body[0]
            if isinstance(up.target, ast.Subscript) and isinstance(up.target.value, ast.Name) and norm_src(up.target.slice) == b_ \
                    and canon_equal(up.value, f"omega[{b_}, leaf_indices[{a_}]]"):
                return up.target.value.id, LEAFCL
        return None

    def copy_loop(st):
        """for b in range(n_clusters): v[b] = w[b]"""
        if isinstance(st, ast.For) and isinstance(st.target, ast.Name) and norm_src(st.iter) == "range(n_clusters)" and len(st.body) == 1 and isinstance(st.body[0], ast.Assign):
            a_ = st.body[0]
            b_ = st.target.id
            if isinstance(a_.targets[0], ast.Subscript) and isinstance(a_.value, ast.Subscript) and norm_src(a_.targets[0].slice) == b_ == norm_src(a_.value.slice) \
                    and isinstance(a_.targets[0].value, ast.Name) and isinstance(a_.value.value, ast.Name):
                return a_.targets[0].value.id, a_.value.value.id
        return None
    if seq is None or not chain:
        ctx.unrecognised("C08-g", site, "the scan is not nested directly in the loops over the leaves and the features")
    else:
        val, depth_of = {}, {}
        innermost = len(chain) - 1
        for st, dp in seq:
            if isinstance(st, ast.Assign) and len(st.targets) == 1 and isinstance(st.targets[0], ast.Name):
                v_ = st.targets[0].id
                src_ = norm_src(st.value)
                if src_ in ("0", "0.0"):
                    val[v_], depth_of[v_] = [ZERO], dp
                elif src_ in ("np.zeros(n_clusters)", "np.zeros(n_clusters, dtype=np.float64)"):
                    val[v_], depth_of[v_] = [ZVEC], dp
                elif isinstance(st.value, ast.Name) and st.value.id in val:
                    val[v_], depth_of[v_] = list(val[st.value.id]), dp
                elif v_ in ("sl_square", "sr_square", "leaf_square", "sl_clusters", "sr_clusters"):
                    val[v_], depth_of[v_] = [f"`{src_[:40]}`"], dp
                continue
            al = acc_loop(st)
            if al is not None and al[0] in val:
                val[al[0]] = val[al[0]] + [al[1]]
                depth_of[al[0]] = max(depth_of.get(al[0], dp), dp) if False else depth_of.get(al[0], dp)
                continue
            cl_ = copy_loop(st)
            if cl_ is not None and cl_[1] in val:
                val[cl_[0]] = [x for x in val[cl_[1]] if x != ZVEC] or [ZVEC]
                depth_of[cl_[0]] = dp
                continue

        def meaning(v_):
            xs = [x for x in val.get(v_, ["unset"]) if x not in (ZERO, ZVEC)]
            return xs[0] if len(xs) == 1 else ("0" if not xs and v_ in val else "+".join(xs) if xs else "unset")
        want = {"sl_square": "0", "sr_square": LEAFSQ, "leaf_square": LEAFSQ, "sl_clusters": "0", "sr_clusters": LEAFCL}
        probs, unrec = [], []
        for v_, w_ in want.items():
            got_ = meaning(v_)
            if got_ == "unset":
                unrec.append(f"{v_} has no recognised initialisation before the scan")
            elif got_ != w_:
                probs.append(f"{v_} starts as {got_}, not {w_}")
            elif v_ != "leaf_square" and depth_of.get(v_) != innermost:
                probs.append(f"{v_} is not re-initialised for each feature (it carries the stocks of the previous scan)")
        if probs:
            ctx.violation("C08-g", unit.relpath, qn, "initialisation of the running stocks", "; ".join(probs), line=sc.lineno, site=site)
        elif unrec:
            ctx.unrecognised("C08-g", site, "; ".join(unrec))
        else:
            ctx.ok("C08-g", site, "Sl empty, Sr = the whole leaf; leaf_square = sigma(N^2)")
    # Lambda / omega / gamma definitions
    for tgt, val, why in (("Lambda", "np.matmul(Z[:n_leaves], kernel)", "Lambda[l, s] must be the stock between leaf l and sample s"),
                          ("omega", "np.matmul(Y[:n_clusters, :n_leaves], Lambda)", "omega[k, s] must be the stock between cluster k and sample s"),
                          ("gamma", "np.matmul(np.matmul(omega, np.transpose(Z[:n_leaves])), np.transpose(Y[:n_clusters, :n_leaves]))", "gamma[k, k'] must be the stock between clusters"),
                          ("cluster_sizes", "np.dot(Y, np.sum(Z, axis=1))", "cluster_sizes[k] must be the number of samples of cluster k")):
        expect_assign(ctx, "C08-g", unit, qn, fb, tgt, [val], f"{qn}: {tgt}", why)


def _enclosing_tests(node, stop):
    """[(test, polarity)] of the If statements between node and stop; an `elif` arm also carries the negation of the earlier tests"""
    out = []
    child = node
    p = getattr(node, "_parent", None)
    while p is not None and p is not stop:
        if isinstance(p, ast.If):
            if any(child is s_ for s_ in p.body):
                out.append((p.test, True))
            elif any(child is s_ for s_ in p.orelse):
                out.append((p.test, False))
        child = p
        p = getattr(p, "_parent", None)
    # innermost positive test last
    out.reverse()
    pos = [c for c in out if c[1]]
    return pos if pos else out


def index_spaces(pm, ctx, unit, fb):
    I = Interp(pm)
    I.force_seeds = True
    I.sub_axes = {"L": "Lmax", "K": "Kmax"}
    S, D, Kmax, Lmax = Ax("S"), Ax("D"), Ax("Kmax"), Ax("Lmax")
    seeds = {
        "kernel": Arr([S, S]), "X": Arr([S, D]), "leaves_to_explore": Arr([Ax("E")], "i", space=Ax("L")),
        "Y": Arr([Kmax, Lmax], "i"), "Z": Arr([Lmax, S], "i"), "n_clusters": Num("i", dimof=Ax("K")),
        "K_max": Num("i", dimof=Kmax), "n_leaves": Num("i", dimof=Ax("L")), "min_leaf": Num("i"),
        "feature_subset": Arr([Ax("F")], "i", space=D),
    }
    res = I.call_function(unit, fb, [seeds[p] for p in ["kernel", "X", "leaves_to_explore", "Y", "Z", "n_clusters", "K_max", "n_leaves",
                                                         "min_leaf", "feature_subset"]], {}, qual="find_best_split")
    evs = [e for e in dedup_events(nonusage(I.events)) if e.kind in ("index-space", "axis-mismatch")]
    for e in evs:
        st = e.stmt()
        ctx.violation("C08-a", unit.relpath, e.func, norm_src(st) if st is not None else "?", f"[{e.kind}] {e.msg}", line=getattr(e.node, "lineno", None),
                      site=f"{e.func}:{norm_src(e.node)[:60]}")
    seen = set()
    for node, ok, qual in I.index_checks:
        if ok and id(node) not in seen:
            seen.add(id(node))
            ctx.ok("C08-a", f"{qual}: {norm_src(node)[:60]}")
    ctx.notes["c08a_tops"] = (I.n_top, I.n_exprs)


def application(pm, ctx):
    ku = pm.unit("gemclus.tree.kauri")
    f = ku.func("Kauri.fit")
    whiles = [n for n in ast.walk(f) if isinstance(n, ast.While)]
    if len(whiles) != 1:
        raise AnalysisError("anchor vanished: the main loop of Kauri.fit")
    w = whiles[0]
    conj = [norm_src(v) for v in (w.test.values if isinstance(w.test, ast.BoolOp) and isinstance(w.test.op, ast.And) else [w.test])]
    want = {"last_gain > 0", "n_leaves < max_leaves", "len(leaves_to_explore) != 0"}
    alt = {"len(leaves_to_explore) != 0": {"len(leaves_to_explore) > 0", "leaves_to_explore"}}
    okc = all(c in conj or any(a in conj for a in alt.get(c, ())) for c in want) and len(conj) == 3
    exits = [n for n in ast.walk(w) if isinstance(n, (ast.Break, ast.Return))]
    if okc and not exits:
        ctx.ok("C08-f", "Kauri.fit: loop runs while gain>0, leaves<max_leaves and a leaf is explorable; no other exit")
    else:
        ctx.violation("C08-f", ku.relpath, "Kauri.fit", norm_src(w.test), "the greedy loop can stop for another reason than a non-positive gain or a "
                      "structural limit" if exits else f"unexpected loop condition {conj}", line=w.lineno)
    # last_gain = best_split.gain and application guarded by last_gain > 0
    lg = [s_ for s_ in w.body if isinstance(s_, ast.Assign) and norm_src(s_.targets[0]) == "last_gain"]
    app = [s_ for s_ in w.body if isinstance(s_, ast.If) and "last_gain" in norm_src(s_.test)]
    if not lg or not app:
        ctx.unrecognised("C08-f", "Kauri.fit: application guard", "no `last_gain = ...` / `if last_gain ...` at the top level of the loop")
        return
    okg = canon_equal(lg[0].value, "best_split.gain") and w.body.index(lg[0]) < w.body.index(app[0])
    try:
        from ..e6_algebra import compare_normal
        d_, o_ = compare_normal(app[0].test)
        okg = okg and o_ == ">" and d_.equals(compare_normal(ast.parse("last_gain > 0", mode="eval").body)[0])
    except Exception:
        okg = False
    if okg:
        ctx.ok("C08-f", "Kauri.fit: the split is applied iff its gain is positive")
    else:
        ctx.violation("C08-f", ku.relpath, "Kauri.fit", norm_src(app[0].test), "the split found is not applied exactly when its own gain is positive", line=app[0].lineno)
    body = app[0]
    # samples of the leaf / of its left part, whatever the spelling: np.where(c)[0], `x, = np.where(c)`, np.flatnonzero(c), np.nonzero(c)[0], or a boolean mask
    def _positions(value, target=None):
        """condition c when `value` (assigned to `target`) denotes the positions where c holds; ('mask', c) for a bare comparison"""
        v = value
        unpack = isinstance(target, (ast.Tuple, ast.List)) and len(target.elts) == 1
        if isinstance(v, ast.Subscript) and isinstance(v.slice, ast.Constant) and v.slice.value == 0 and isinstance(v.value, ast.Call):
            v, unpack = v.value, True
        if isinstance(v, ast.Call) and v.args:
            nm = (call_name(v) or "").split(".")[-1]
            if nm in ("where", "nonzero") and len(v.args) == 1 and unpack:
                return "pos", v.args[0]
            if nm == "flatnonzero" and len(v.args) == 1 and not unpack:
                return "pos", v.args[0]
        if isinstance(v, ast.Compare):
            return "mask", v
        return None

    def _assigns(name):
        out_ = []
        for s_ in ast.walk(body):
            if isinstance(s_, ast.Assign) and len(s_.targets) == 1:
                t_ = s_.targets[0]
                names_ = [t_.id] if isinstance(t_, ast.Name) else ([e.id for e in t_.elts if isinstance(e, ast.Name)] if isinstance(t_, (ast.Tuple, ast.List)) and len(t_.elts) == 1 else [])
                if name in names_:
                    out_.append(s_)
        return sorted(out_, key=lambda s_: _order.get(id(s_), 0))
    _order = {}

    def _number(stmts):
        for s_ in stmts:
            _order[id(s_)] = len(_order)
            for fld in ("body", "orelse", "finalbody"):
                b_ = getattr(s_, fld, None)
                if isinstance(b_, list):
                    _number(b_)
    _number(body.body if hasattr(body, "body") else [])
    from ..pm import canon_node
    site = "Kauri.fit: applied partition"
    la = _assigns("left_indices")
    cond = None
    if la:
        last = la[-1]
        v = last.value
        if isinstance(v, ast.Subscript) and norm_src(v.value) == "leaf_indices":
            sel = v.slice
            if isinstance(sel, ast.Name):
                prev = [s_ for s_ in _assigns(sel.id) if _order.get(id(s_), -1) < _order.get(id(last), 0)]
                r_ = _positions(prev[-1].value, prev[-1].targets[0]) if prev else None
            else:
                r_ = _positions(sel)
            cond = r_[1] if r_ else None
    if cond is None:
        ctx.unrecognised("C08-f", site, "left_indices is not leaf_indices[<positions or mask of a comparison>]")
    else:
        cond = canon_node(cond)
        okc = isinstance(cond, ast.Compare) and isinstance(cond.ops[0], ast.LtE) and norm_src(cond.left) == "X[leaf_indices, best_split.feature]" \
            and norm_src(cond.comparators[0]) == "best_split.threshold"
        if okc:
            ctx.ok("C08-f", site, "left part = samples of the leaf with X[:, feature] <= threshold")
        else:
            ctx.violation("C08-f", ku.relpath, "Kauri.fit", norm_src(la[-1]), "the applied partition is not `feature <= threshold` on the samples of the chosen leaf, i.e. not the "
                          "partition whose gain was evaluated", line=la[-1].lineno, site=site)
    site = "Kauri.fit: samples of the split leaf"
    ls = _assigns("leaf_indices")
    r_ = _positions(ls[-1].value, ls[-1].targets[0]) if ls else None
    if not r_ or r_[0] != "pos":
        ctx.unrecognised("C08-f", site, "leaf_indices is not the positions where a condition on Z holds")
    elif canon_equal(r_[1], "Z[best_split.leaf] == 1"):
        ctx.ok("C08-f", site)
    else:
        ctx.violation("C08-f", ku.relpath, "Kauri.fit", norm_src(ls[-1]), "the split is not applied to the samples of best_split.leaf", line=ls[-1].lineno, site=site)
    for tgt, val, why in (("Z[best_split.leaf, right_indices]", "0", "right samples do not leave the split leaf"),
                          ("Z[n_leaves, right_indices]", "1", "right samples do not enter the new leaf n_leaves"),
                          ("Y[k, best_split.leaf]", "0", "the split leaf is not removed from its old cluster"),
                          ("Y[best_split.left_target, best_split.leaf]", "1", "the left part is not assigned to the recorded left target"),
                          ("Y[best_split.right_target, n_leaves]", "1", "the right part (new leaf) is not assigned to the recorded right target"),
                          ("k", "Y[:, best_split.leaf].argmax()", "k is not the current cluster of the split leaf")):
        st_ = expect_assign(ctx, "C08-f", ku, "Kauri.fit", body, tgt, [val], f"Kauri.fit: {tgt}", why)
        if st_ is not None and tgt != "k" and st_ not in body.body:
            conds = [norm_src(p_.test) for p_ in parents(st_) if isinstance(p_, ast.If) and p_ is not body]
            ctx.violation("C08-f", ku.relpath, "Kauri.fit", norm_src(st_), f"the state update `{norm_src(st_)}` is conditional ({conds[:1]}): when the condition fails the matrices "
                          f"Y / Z no longer describe the tree that was just recorded, so labels_ and predict disagree", line=st_.lineno, site=f"Kauri.fit: {tgt} unconditional")
    from ..astutil import as_augassign
    inc_pairs = [(s_, as_augassign(s_)) for s_ in body.body]
    inc_orig = {id(a): s_ for s_, a in inc_pairs if a is not None}
    inc = [a for s_, a in inc_pairs if a is not None and norm_src(a.target) == "n_leaves"]
    if not inc:
        ctx.unrecognised("C08-f", "Kauri.fit: n_leaves", "no increment of n_leaves in the application block")
    else:
        i = body.body.index(inc_orig[id(inc[0])])
        uses_after = [s_ for s_ in body.body[i + 1:] for n in ast.walk(s_) if isinstance(n, ast.Name) and n.id == "n_leaves"]
        if len(inc) == 1 and isinstance(inc[0].op, ast.Add) and canon_equal(inc[0].value, "1") and not uses_after:
            ctx.ok("C08-f", "Kauri.fit: n_leaves incremented once, after the new leaf was recorded")
        else:
            ctx.violation("C08-f", ku.relpath, "Kauri.fit", norm_src(inc[0]), "n_leaves is not incremented exactly once after every use of the new leaf's id", line=inc[0].lineno)
    # cluster count bump
    inc = _cluster_increment(body.body, {n_.name: n_ for n_ in ku.tree.body if isinstance(n_, ast.FunctionDef)})
    site = "Kauri.fit: n_clusters"
    if inc is None:
        ctx.unrecognised("C08-f", site, "no update of n_clusters from the recorded targets")
    else:
        stmt, table = inc
        want = {(True, True): 2, (True, False): 1, (False, True): 1, (False, False): 0}
        if table == want:
            ctx.ok("C08-f", "Kauri.fit: n_clusters grows by the number of new targets")
        else:
            bad = next(k for k in want if table.get(k) != want[k])
            ctx.violation("C08-f", ku.relpath, "Kauri.fit", norm_src(stmt.test if isinstance(stmt, ast.If) else stmt)[:160],
                          f"n_clusters is not increased by the number of targets that are new cluster ids (2 if both, 1 if one): with left new = {bad[0]}, right new = {bad[1]} "
                          f"it grows by {table.get(bad)}", line=stmt.lineno)


def _cluster_increment(stmts, helpers=None):
    """(first statement involved, {(left target is new, right target is new): increment of n_clusters}) from the statements of the application block, by
    evaluating them for the four truth values of `best_split.left_target >= n_clusters` and `best_split.right_target >= n_clusters`. None = not recognised."""
    from ..pm import canon_node
    L, R = "n_clusters <= best_split.left_target", "n_clusters <= best_split.right_target"

    class Unknown(Exception):
        pass
    first = []

    def run(l, r):
        env = {}
        state = {"inc": 0, "dirty": False}

        def ev(e):
            e = canon_node(e) if not hasattr(e, "_cn_done") else e
            t = str(norm_src(e))
            if t in (L, R):
                if state["dirty"]:
                    raise Unknown()
                return l if t == L else r
            if isinstance(e, ast.Constant) and isinstance(e.value, (int, bool)):
                return e.value
            if isinstance(e, ast.Name) and e.id in env:
                return env[e.id]
            if isinstance(e, ast.BoolOp):
                vals = [ev(v) for v in e.values]
                return all(vals) if isinstance(e.op, ast.And) else any(vals)
            if isinstance(e, ast.UnaryOp) and isinstance(e.op, ast.Not):
                return not ev(e.operand)
            if isinstance(e, ast.BinOp) and isinstance(e.op, (ast.Add, ast.Sub, ast.Mult)):
                a_, b_ = ev(e.left), ev(e.right)
                return a_ + b_ if isinstance(e.op, ast.Add) else (a_ - b_ if isinstance(e.op, ast.Sub) else a_ * b_)
            if isinstance(e, ast.Call) and isinstance(e.func, ast.Name) and e.func.id in ("int", "bool") and len(e.args) == 1:
                return int(ev(e.args[0])) if e.func.id == "int" else bool(ev(e.args[0]))
            if isinstance(e, ast.IfExp):
                return ev(e.body) if ev(e.test) else ev(e.orelse)
            if isinstance(e, ast.Call) and isinstance(e.func, ast.Name) and helpers and e.func.id in helpers and not e.keywords:
                # a loop-free module-level helper (e.g. `_count_new_clusters(split, n_clusters)`): its body is evaluated with the arguments substituted
                g = helpers[e.func.id]
                ps = [a.arg for a in g.args.args]
                if len(ps) != len(e.args):
                    raise Unknown()
                m = dict(zip(ps, e.args))
                from ..astutil import clone as _cl

                class S(ast.NodeTransformer):
                    def visit_Name(self, n):
                        if isinstance(n.ctx, ast.Load) and n.id in m:
                            return _cl(m[n.id])
                        return n

                def sub(x):
                    y = S().visit(_cl(x))
                    for n_ in ast.walk(y):
                        for a_ in ("_ns", "_cn", "_cn_done"):
                            if hasattr(n_, a_):
                                delattr(n_, a_)
                    return ast.fix_missing_locations(y)

                def run_body(ss):
                    for s2 in ss:
                        if isinstance(s2, ast.Return):
                            return ("ret", ev(sub(s2.value)))
                        if isinstance(s2, ast.Assign) and len(s2.targets) == 1 and isinstance(s2.targets[0], ast.Name) and s2.targets[0].id not in m:
                            env[s2.targets[0].id] = ev(sub(s2.value))
                        elif isinstance(s2, ast.If):
                            r2 = run_body(s2.body if ev(sub(s2.test)) else s2.orelse)
                            if r2 is not None:
                                return r2
                        elif isinstance(s2, ast.Expr) and isinstance(s2.value, ast.Constant):
                            continue
                        else:
                            raise Unknown()
                    return None
                r3 = run_body(g.body)
                if r3 is None:
                    raise Unknown()
                return r3[1]
            raise Unknown()

        def mentions(node):
            return any(isinstance(n, ast.Name) and n.id == "n_clusters" for n in ast.walk(node))

        def block(ss):
            for s_ in ss:
                if isinstance(s_, ast.If):
                    if not mentions(s_) and not any(isinstance(n, ast.Name) and n.id in env for n in ast.walk(s_.test)):
                        continue
                    first.append(s_)
                    block(s_.body if ev(s_.test) else s_.orelse)
                elif isinstance(s_, ast.AugAssign) and isinstance(s_.target, ast.Name) and s_.target.id == "n_clusters":
                    first.append(s_)
                    v = ev(s_.value)
                    if not isinstance(s_.op, (ast.Add, ast.Sub)):
                        raise Unknown()
                    state["inc"] += int(v) if isinstance(s_.op, ast.Add) else -int(v)
                    state["dirty"] = True
                elif isinstance(s_, ast.Assign) and len(s_.targets) == 1 and isinstance(s_.targets[0], ast.Name):
                    t_ = s_.targets[0].id
                    if t_ == "n_clusters":
                        raise Unknown()
                    if mentions(s_.value) or any(isinstance(n, ast.Name) and n.id in env for n in ast.walk(s_.value)):
                        try:
                            env[t_] = ev(s_.value)
                            first.append(s_)
                        except Unknown:
                            env.pop(t_, None)
                elif isinstance(s_, (ast.For, ast.While)) and mentions(s_) and any(
                        isinstance(n, (ast.AugAssign, ast.Assign)) and any(isinstance(x, ast.Name) and x.id == "n_clusters" and isinstance(x.ctx, ast.Store) for x in ast.walk(n))
                        for n in ast.walk(s_)):
                    raise Unknown()
        block(stmts)
        return state["inc"]
    try:
        table = {(l, r): run(l, r) for l in (True, False) for r in (True, False)}
    except Unknown:
        return None
    if not first or not any(isinstance(s_, ast.AugAssign) or isinstance(s_, ast.If) for s_ in first):
        return None
    return first[0], table


# ------------------------------------------------------------------------------------------- controls
def controls(pm, tier):
    out = []
    unit_rel = "gemclus/tree/_utils.pyx"

    def mut(find, repl, rule, name, count=1, also=()):
        def apply(pm_):
            u = pm_.unit(PYX)
            if find not in u.src:
                return None
            return {u.relpath: u.src.replace(find, repl, count)}
        out.append({"name": name, "rule": rule, "apply": apply, "also": also})

    mut("2 * (sl_clusters[k] + sr_clusters[k]) / delta_size", "2 * omega[k, feature_id] / delta_size", "C08-a", "feature id used as a sample index of omega")
    mut("split_star -= 2 * (sl_square + sl_sr) / delta_size", "split_star -= (sl_square + sl_sr) / delta_size", "C08-b", "double-star cross term loses its factor 2")
    mut("elif right_switch >= second_gain_right:", "elif left_switch >= second_gain_right:", "C08-c", "right tracker compares the left gain")
    mut("right_star -= 2 * sr_clusters[k] / delta_size", "right_star -= 2 * sl_clusters[k] / delta_size", "C08-b", "right star reads the left stock")
    mut("left_switch += 2 * sl_clusters[k_prime] / delta_size_k_prime", "left_switch += sl_clusters[k_prime] / delta_size_k_prime", "C08-b", "left switch cross term halved")
    mut("if n_clusters < K_max - 1 and n_leaf != cluster_sizes[k]:", "if n_clusters < K_max and n_leaf != cluster_sizes[k]:", "C08-e", "double star allowed with one free cluster id")
    mut("if left_star > best_split.gain or right_star > best_split.gain:\n            if left_star > right_star:",
        "if left_star > best_split.gain or right_star > best_split.gain:\n            if left_star < right_star:", "C08-d", "star keeps the smaller of the two candidates")
    mut("corrective_term += gamma[k, k] / cluster_sizes[k]", "corrective_term -= gamma[k, k] / cluster_sizes[k]", "C08-b", "corrective term sign")

    mut("                sl_square += 2 * alpha + kernel[nu[l_split], nu[l_split]]", "                sl_square += alpha + kernel[nu[l_split], nu[l_split]]", "C08-g", "left stock misses half of the cross term")
    mut("                    elif l_prime > l_split:", "                    elif l_prime >= l_split:", "C08-g", "beta includes the diagonal term")
    mut("                    sr_clusters[a] -= omega[a, nu[l_split]]", "                    sr_clusters[a] -= omega[a, nu[l_split + 1]]", "C08-g", "right cluster stock moved by the next sample")
    mut("                sr_square += Lambda[j, leaf_indices[a]]", "                sr_square += Lambda[k, leaf_indices[a]]", "C08-g", "right stock initialised from the row of the cluster id", also=("C08-a",))
    mut("            for l_split in range(n_leaf -1):", "            for l_split in range(min_leaf - 1, n_leaf - 1):", "C08-g", "scan starts at the first admissible cut with empty left stocks")
    mut("            for l_split in range(n_leaf -1):", "            for l_split in range(n_leaf - min_leaf - 1):", "C08-g", "scan stops one position before the last admissible cut")
    mut("                sr_square -= 2 * beta + kernel[nu[l_split], nu[l_split]]",
        "                beta = omega[k, nu[l_split]] - alpha - kernel[nu[l_split], nu[l_split]]\n                sr_square -= 2 * beta + kernel[nu[l_split], nu[l_split]]",
        "C08-g", "beta derived from the cluster stock instead of the leaf stock")
    mut("                if top_gain_left + second_gain_right > top_gain_right + second_gain_left:", "                if top_gain_left > top_gain_right:", "C08-d",
        "reallocation pair chosen greedily on the top gains")

    def skip_first(pm_):
        u = pm_.unit(PYX)
        a = "                if l_split < (min_leaf - 1) or l_split > n_leaf - min_leaf - 1:\n                    # We must guarantee a certain number of samples remaining in the leaves\n                    continue\n"
        b = "                sl_square += 2 * alpha + kernel[nu[l_split], nu[l_split]]\n"
        if a not in u.src or b not in u.src:
            return None
        s2 = u.src.replace(a, "")
        s2 = s2.replace(b, a + b)
        return {u.relpath: s2}
    out.append({"name": "min-leaf skip moved above the stock updates", "rule": "C08-g", "apply": skip_first})

    def app_mut(pm_):
        u = pm_.unit("gemclus.tree.kauri")
        s = "left_indices, = np.where(X[leaf_indices, best_split.feature] <= best_split.threshold)"
        if s not in u.src:
            return None
        return {u.relpath: u.src.replace(s, "left_indices, = np.where(X[leaf_indices, best_split.feature] < best_split.threshold)")}
    out.append({"name": "fit applies the split with < instead of <=", "rule": "C08-f", "apply": app_mut})
    for c in out:
        if c["apply"].__name__ == "apply":
            c["predesugared"] = True
    mut("        if left_star > best_split.gain or right_star > best_split.gain:", "        if left_star > best_split.gain:", "C08-d", "right single-star candidate only considered when the left one wins")
    return out
