"""C07 - the regularisation path honours its stopping, history and best-weights contract (structural clauses)."""
import ast

from ..pm import AnalysisError, norm_src, func_params, func_defaults
from ..flow import CFG, ENTRY, EXIT, attr_chain
from ..astutil import call_name, const, is_const, parents
from ..e2_tables import TableEval
from ..e6_algebra import to_rat, compare_normal, NotScalarArithmetic, Poly, Rat
from .c03 import weights_list

PROP = "C07"
EXPLANATION = (
    "(a) termination obligations of _path: the outer loop makes progress only through alpha *= alpha_multiplier, so "
    "guard-normalisation idioms (`if v <= c: warn; v = default > c`) must dominate it for alpha_multiplier > 1, min_features > 0 "
    "and alpha > 0, the multiplication must be executed on every non-aborting iteration, and the inner loop is bounded by a "
    "counter i from 0 with i += 1 and i < max_iter; (b) definite assignment: every name read in _path / compute_val_score / path "
    "is assigned on every path reaching the read, where a loop counts as executed once only if its entry test is proved true "
    "from constants, validated intervals and the normalised guards; (c) lock-step histories: the four appends sit in one "
    "straight-line block after the NaN abort, once per outer iteration, alphas.append(alpha) precedes the multiplication and "
    "records the alpha the step was trained with (clf.alpha = alpha before training), counts/penalties are read from the model "
    "in that block; (d) every out-of-range guard both warns and assigns the signature default; (e) best-weights rule by control "
    "dependence: copies (w.copy()) taken under iteration_score >= keep_threshold * best_score, best score raised only under "
    "the all-features test, in that order; (f) restore: np.copyto(self.<w_i>, best_weights[i]) for every weight in the order of "
    "_get_weights(), only when restore_best_weights and not dynamic. Not decided: comparator directions beyond those listed, "
    "numerical history values, that shrinkage eventually removes features.")
ASSUMPTIONS = ["validated hyper-parameter domains (max_iter >= 1, alpha >= 0)", "_batchify yields at least one batch for non-empty data (C10-a)"]

S = "gemclus.sparse._base_sparse"


def normalising_guards(f):
    """{var: (bound Rat, op, default value, If node)} for `if <var> <= c [or ...]: warn; var = k` at top level"""
    out = {}
    for st in f.body:
        if not isinstance(st, ast.If):
            continue
        assigns = [s for s in st.body if isinstance(s, ast.Assign) and isinstance(s.targets[0], ast.Name) and is_const(s.value)]
        warns = [s for s in st.body if isinstance(s, ast.Expr) and isinstance(s.value, ast.Call) and (call_name(s.value) or "").endswith("warn")]
        for a in assigns:
            out[a.targets[0].id] = {"if": st, "default": const(a.value), "warns": bool(warns), "test": st.test}
    return out


def implies_positive(test, var, bound, default):
    """does `if test: var = default` establish var > bound afterwards? test must contain `var <= bound` (or <)"""
    from ..pm import canon_node
    test = canon_node(test)
    parts = test.values if isinstance(test, ast.BoolOp) and isinstance(test.op, ast.Or) else [test]
    for c in parts:
        if isinstance(c, ast.Compare) and len(c.ops) == 1 and norm_src(c.left) == var and is_const(c.comparators[0]):
            b = const(c.comparators[0])
            if isinstance(c.ops[0], ast.LtE) and b >= bound and default > bound:
                return True
            if isinstance(c.ops[0], ast.Lt) and b > bound and default > bound:
                return True
    return False


def run(pm, ctx):
    u = pm.unit(S)
    f = u.func("_path")
    cfg = CFG(f)
    te = TableEval(pm)
    ctx.rule("C07-a", "path() must terminate: progress only comes from the geometric growth of alpha", floor=5)
    ctx.rule("C07-b", "no name may be read before assignment on any feasible path", floor=40)
    ctx.rule("C07-c", "the four histories advance in lock-step and record the step they describe", floor=6)
    ctx.rule("C07-d", "out-of-range arguments are replaced by the documented defaults with a warning", floor=4)
    ctx.rule("C07-e", "best weights = copy of the last step within keep_threshold of the best all-features score", floor=5)
    ctx.rule("C07-f", "restore_best_weights puts every weight back, in the order of _get_weights()", floor=4)

    guards = normalising_guards(f)
    whiles = [n for n in cfg.nodes if isinstance(n, ast.While)]
    # the path loop is the loop that contains the training loop (identified by nesting, not by the spelling of its test)
    outer = [w for w in whiles if any(isinstance(n, ast.While) and n is not w for n in ast.walk(w))]
    inner = [w for w in whiles if w not in outer]
    if len(outer) != 1 or len(inner) != 1:
        raise AnalysisError("anchor vanished: the two loops of _path")
    W, Wi = outer[0], inner[0]
    Wi_top = next((b for b in W.body if b is Wi or _within(Wi, b)), None)      # the statement of the path loop that holds the training loop
    # ------------------------------------------------------------------ a
    mults = [s for s in W.body if isinstance(s, ast.AugAssign) and isinstance(s.op, ast.Mult) and isinstance(s.target, ast.Name)]
    site = "_path: progress of the outer loop"
    closed = None
    if not mults:
        # other spellings of the geometric growth
        setv = [s_ for s_ in W.body if isinstance(s_, ast.Assign) and attr_chain(s_.targets[0]) == "clf.alpha" and isinstance(s_.value, ast.Name)]
        av = setv[0].value.id if setv else None
        for s_ in W.body:
            if av and isinstance(s_, ast.Assign) and len(s_.targets) == 1 and isinstance(s_.targets[0], ast.Name) and s_.targets[0].id == av:
                v = s_.value
                if isinstance(v, ast.BinOp) and isinstance(v.op, ast.Mult):
                    sides = [v.left, v.right]
                    if any(isinstance(x, ast.Name) and x.id == av for x in sides):
                        other = [x for x in sides if not (isinstance(x, ast.Name) and x.id == av)][0]
                        mults = [ast.copy_location(ast.AugAssign(target=ast.Name(id=av, ctx=ast.Store()), op=ast.Mult(), value=other), s_)]
                        ast.fix_missing_locations(mults[0])
                        mults[0]._orig = s_
                    else:
                        pw = [x for x in sides if isinstance(x, ast.BinOp) and isinstance(x.op, ast.Pow)]
                        base = [x for x in sides if x not in pw]
                        if len(pw) == 1 and len(base) == 1 and isinstance(base[0], ast.Name) and isinstance(pw[0].left, ast.Name) and \
                                isinstance(pw[0].right, ast.Call) and call_name(pw[0].right) == "len":
                            closed = (s_, av, base[0].id, pw[0].left.id, norm_src(pw[0].right.args[0]))
    if closed is not None:
        s_, av, base, mv, hist = closed
        rd0 = cfg.reaching()
        outside = lambda ds: frozenset(d for d in ds if d is ENTRY or not _within(d, W))
        d_alpha = outside(rd0[W].get(av, frozenset()))
        d_base = outside(rd0[W].get(base, frozenset()))
        hist_ok = any(isinstance(x, ast.Expr) and norm_src(x.value) == f"{hist}.append({av})" for x in W.body)
        if d_alpha == d_base and hist_ok:
            ctx.ok("C07-a", site, f"{av} = {base} * {mv} ** len({hist}) with {base} bound where {av} is")
        elif not hist_ok:
            ctx.unrecognised("C07-a", site, f"closed-form growth `{norm_src(s_)}`")
        else:
            ctx.violation("C07-a", u.relpath, "_path", norm_src(s_), f"the growth restarts from `{base}`, which is not the value `{av}` has when the loop starts "
                          f"(definitions differ: a fallback applied to {av} is not seen by {base}): the alphas do not grow by {mv} and the loop may never end",
                          line=s_.lineno, site=site)
        avar, mvar = av, mv
        mults = [s_]
    elif len(mults) != 1:
        if len(mults) > 1:
            ctx.violation("C07-a", u.relpath, "_path", norm_src(mults[1]), "alpha is multiplied more than once per iteration: the recorded alphas do not grow by exactly alpha_multiplier",
                          line=mults[1].lineno, site=site)
        else:
            ctx.unrecognised("C07-a", site, "no `alpha *= alpha_multiplier` at the top level of the outer loop")
        avar = mvar = None
    else:
        avar, mvar = mults[0].target.id, norm_src(mults[0].value)
        # the model is trained with that alpha
        sets = [s for s in W.body if isinstance(s, ast.Assign) and attr_chain(s.targets[0]) == "clf.alpha" and norm_src(s.value) == avar]
        if sets and W.body.index(sets[0]) < W.body.index(Wi) if Wi in W.body else False:
            ctx.ok("C07-a", site, f"{avar} *= {mvar} once per iteration; clf.alpha = {avar} before training")
        else:
            ctx.violation("C07-a", u.relpath, "_path", f"clf.alpha = {avar}", "the model is not given the path's alpha before the step is trained", line=W.lineno, site=site)
        # other exits
        conts = [n for n in ast.walk(W) if isinstance(n, ast.Continue) and _loop_of(n) is W]
        if conts:
            ctx.violation("C07-a", u.relpath, "_path", "continue", "an iteration of the outer loop can skip the growth of alpha", line=conts[0].lineno, site=site + ": continue")
    for var, bound, what in ((mvar, 1, "alpha_multiplier > 1"), (avar, 0, "alpha > 0"), ("min_features", 0, "min_features > 0")):
        site = f"_path: {what}"
        if var is None:
            continue
        g = guards.get(var)
        if g is not None and implies_positive(g["test"], var, bound, g["default"]) and cfg.dominates(g["if"], W):
            # no later re-binding to something unchecked before the loop
            rd = cfg.reaching()
            m0 = getattr(mults[0], "_orig", mults[0]) if mults else None
            bad = [d for d in rd[W].get(var, ()) if d is not ENTRY and d is not m0 and not _within(d, g["if"]) and not _is_source_def(d, var)]
            if not bad:
                ctx.ok("C07-a", site, f"normalised by `{norm_src(g['test'])}` -> {g['default']}")
                continue
        ctx.violation("C07-a", u.relpath, "_path", f"guard for {what}", f"nothing guarantees {what} when the outer loop starts: with the accepted value "
                      f"{var}={bound} alpha never grows and the loop never ends", line=W.lineno, site=site)
    # inner loop bound
    conj = [norm_src(v) for v in (Wi.test.values if isinstance(Wi.test, ast.BoolOp) and isinstance(Wi.test.op, ast.And) else [Wi.test])]
    cnt = [c for c in conj if c.endswith("< clf.max_iter") or c.endswith("< self.max_iter")]
    site = "_path: inner loop bound"
    okb = False
    if cnt:
        iv = cnt[0].split(" <")[0]
        steps = [s for s in Wi.body if isinstance(s, (ast.AugAssign, ast.Assign)) and norm_src(s) == f"{iv} += 1"]     # norm_src spells i = i + 1 as i += 1
        inits = [d for d in cfg.reaching()[Wi].get(iv, ()) if d not in set(ast.walk(Wi))]
        okb = len(steps) == 1 and Wi.body[-1] is steps[0] and len(inits) == 1 and norm_src(inits[0]) == f"{iv} = 0" \
            and not any(isinstance(n, ast.Continue) for n in ast.walk(Wi) if _loop_of(n) is Wi)
    if okb:
        ctx.ok("C07-a", site, f"{cnt[0]} with {iv} from 0, += 1 at the end of every iteration")
    else:
        ctx.violation("C07-a", u.relpath, "_path", norm_src(Wi.test), "the training loop of a step is not bounded by a counter i < max_iter advancing every iteration",
                      line=Wi.lineno, site=site)

    # ------------------------------------------------------------------ b definite assignment
    for fn in ("_path", "compute_val_score"):
        ff = u.func(fn)
        c2 = CFG(ff)
        once = loops_entered(pm, te, c2, ff, normalising_guards(ff))
        da = c2.definitely_assigned(at_least_once=once)
        glob = set(u.imports) | set(u.functions) | set(u.assigns) | {"len", "print", "range", "min", "max", "set", "list", "int", "float", "enumerate", "zip", "isinstance", "sum", "abs"}
        for st in c2.nodes:
            for name in sorted(c2.uses(st)):
                if "." in name or name in glob:
                    continue
                site = f"{fn}: {name} @ {norm_src(st)[:50]}"
                if name in da[st]:
                    ctx.ok("C07-b", site)
                else:
                    ctx.violation("C07-b", u.relpath, fn, norm_src(st)[:160], f"{name} may be read before assignment (a loop that defines it can run zero times)",
                                  line=st.lineno, site=site)

    # ------------------------------------------------------------------ c lock-step histories
    hist_names = ["alphas", "n_features", "geminis", "group_lasso_penalties"]
    apps = {}
    def _push(name, value, stmt):
        c = ast.Call(func=ast.Attribute(value=ast.Name(id=name, ctx=ast.Load()), attr="append", ctx=ast.Load()), args=[value], keywords=[])
        ast.copy_location(c, stmt)
        ast.fix_missing_locations(c)
        c._parent = stmt if isinstance(stmt, ast.stmt) else getattr(stmt, "_parent", None)
        return c
    for n in ast.walk(f):
        if isinstance(n, ast.Call) and isinstance(n.func, ast.Attribute) and n.func.attr == "append" and isinstance(n.func.value, ast.Name) and n.func.value.id in hist_names:
            apps.setdefault(n.func.value.id, []).append(n)
        # other spellings of one push: L += [x] / L.extend([x]) / L = L + [x]
        elif isinstance(n, ast.AugAssign) and isinstance(n.op, ast.Add) and isinstance(n.target, ast.Name) and n.target.id in hist_names \
                and isinstance(n.value, (ast.List, ast.Tuple)) and len(n.value.elts) == 1:
            apps.setdefault(n.target.id, []).append(_push(n.target.id, n.value.elts[0], n))
        elif isinstance(n, ast.Call) and isinstance(n.func, ast.Attribute) and n.func.attr == "extend" and isinstance(n.func.value, ast.Name) and n.func.value.id in hist_names \
                and n.args and isinstance(n.args[0], (ast.List, ast.Tuple)) and len(n.args[0].elts) == 1:
            apps.setdefault(n.func.value.id, []).append(_push(n.func.value.id, n.args[0].elts[0], getattr(n, "_parent", n)))
        elif isinstance(n, ast.Assign) and isinstance(n.targets[0], ast.Name) and n.targets[0].id in hist_names and isinstance(n.value, ast.BinOp) and isinstance(n.value.op, ast.Add) \
                and isinstance(n.value.left, ast.Name) and n.value.left.id == n.targets[0].id and isinstance(n.value.right, (ast.List, ast.Tuple)) and len(n.value.right.elts) == 1:
            apps.setdefault(n.targets[0].id, []).append(_push(n.targets[0].id, n.value.right.elts[0], n))
    site = "_path: histories"
    probs = []
    if not apps:
        ctx.unrecognised("C07-c", site, "no append to the four history lists")
        apps = None
    elif sorted(apps) != sorted(hist_names) or any(len(v) != 1 for v in apps.values()):
        probs.append(f"each history must be appended exactly once per step; found {dict((k, len(v)) for k, v in apps.items())}")
    else:
        stmts = {k: _stmt(v[0]) for k, v in apps.items()}
        if not all(s in W.body for s in stmts.values()):
            probs.append("an append is not at the top level of the outer loop body (it may be skipped or repeated)")
        else:
            idx = sorted(W.body.index(s) for s in stmts.values())
            between = W.body[idx[0]:idx[-1] + 1]
            if any(isinstance(s, (ast.If, ast.For, ast.While, ast.Try)) or any(isinstance(x, (ast.Break, ast.Continue, ast.Return)) for x in ast.walk(s)) for s in between):
                probs.append("control flow separates the four appends: the histories can get different lengths")
            brk = [s for s in W.body if isinstance(s, ast.If) and any(isinstance(x, ast.Break) for x in ast.walk(s))]
            if any(W.body.index(b) > idx[0] for b in brk):
                probs.append("an abort (break) can happen after some histories were already appended")
            if mults and getattr(mults[0], "_orig", mults[0]) in W.body and W.body.index(stmts["alphas"]) > W.body.index(getattr(mults[0], "_orig", mults[0])):
                probs.append("alphas records the value after the multiplication, not the alpha the step was trained with")
            if Wi in W.body and idx[0] < W.body.index(Wi):
                probs.append("a history is appended before the step is trained")
            want = {"alphas": [avar or "alpha"], "n_features": ["clf._n_selected_features().item()", "clf._n_selected_features()"],
                    "group_lasso_penalties": ["clf._group_lasso_penalty()"]}
            for k, alts in want.items():
                got = norm_src(apps[k][0].args[0])
                if got not in alts:
                    probs.append(f"{k} records {got}")
            gsc = norm_src(apps["geminis"][0].args[0])
            rd = cfg.reaching()
            gd = [d for d in rd[stmts["geminis"]].get(gsc, ())] if gsc.isidentifier() else []
            if not gd or not all(d is not ENTRY and isinstance(d, ast.Assign) and "compute_val_score(clf, X, y, batch_size, gemini_objective)" in norm_src(d.value) and _within(d, Wi) for d in gd):
                probs.append("geminis does not record the validation score computed at the end of the step's last epoch")
    if apps is None:
        pass
    elif probs:
        ctx.violation("C07-c", u.relpath, "_path", "history appends", "; ".join(probs), line=W.lineno, site=site)
    else:
        ctx.ok("C07-c", site, "four appends in one straight-line block after the NaN abort, before alpha grows")
        for k in hist_names:
            ctx.ok("C07-c", f"_path: {k}.append({norm_src(apps[k][0].args[0])})")
    # alphas start at the model's alpha
    rd = cfg.reaching()
    adefs = [d for d in rd[W].get(avar or "alpha", ()) if not _within(d, W)]
    src_ok = any(isinstance(d, ast.Assign) and norm_src(d.value) == "clf.alpha" for d in adefs)
    setp = [s for s in f.body if "set_params(alpha=0)" in norm_src(s)]
    first_def = [s for s in f.body if isinstance(s, ast.Assign) and norm_src(s.value) == "clf.alpha"]
    if src_ok and setp and first_def and f.body.index(first_def[0]) < f.body.index(setp[0]):
        ctx.ok("C07-c", "_path: the path starts from the model's own alpha, read before the unpenalised initial fit")
    else:
        ctx.violation("C07-c", u.relpath, "_path", "alpha = clf.alpha", "the first alpha of the path is not the model's alpha", line=f.lineno, site="_path: first alpha")
    # return order, and path returns it unchanged
    ret = [s for s in f.body if isinstance(s, ast.Return)]
    order = "best_weights, geminis, group_lasso_penalties, alphas, n_features"
    if ret and norm_src(ret[0].value).strip("()") == order:
        ctx.ok("C07-c", "_path returns (best_weights, geminis, penalties, alphas, n_features)")
    else:
        ctx.violation("C07-c", u.relpath, "_path", norm_src(ret[0]) if ret else "return", "the histories are returned in another order", line=f.lineno, site="_path: return order")

    # ------------------------------------------------------------------ d defaults
    defaults = func_defaults(f)
    for var, g in sorted(guards.items()):
        site = f"_path: default of {var}"
        if var in defaults:
            want = const(defaults[var]) if is_const(defaults[var]) else None
        elif var == (avar or "alpha"):
            want = None
            for cn in ("SparseLinearModel", "SparseMLPModel"):
                d = func_defaults(pm.classes[cn].methods["__init__"]).get("alpha")
                want = const(d) if d is not None and is_const(d) else None
        else:
            continue
        if g["warns"] and want is not None and g["default"] == want:
            ctx.ok("C07-d", site, f"warns and assigns {want}")
        else:
            ctx.violation("C07-d", u.relpath, "_path", norm_src(g["if"].test), f"the guard for {var} " + ("does not warn" if not g["warns"] else
                          f"assigns {g['default']} but the documented default is {want}"), line=g["if"].lineno, site=site)
    # the guard replaces exactly the out-of-range values: its test is evaluated on one representative of every cell that the constants
    # of the test and of the documented range cut out of the real line (a boolean combination of comparisons with constants is
    # constant on each cell)
    VALID = {"alpha_multiplier": ("x > 1", lambda x: x > 1), "keep_threshold": ("0 <= x <= 1", lambda x: 0 <= x <= 1), "min_features": ("x > 0", lambda x: x > 0),
             "max_patience": ("x > 0", lambda x: x > 0)}
    for var, (doc, valid) in VALID.items():
        site = f"_path: range test of {var}"
        g = guards.get(var)
        if g is None:
            ctx.unrecognised("C07-d", site, f"no replacing guard for {var}")
            continue
        test = g["test"]
        consts = sorted({float(n.value) for n in ast.walk(test) if isinstance(n, ast.Constant) and isinstance(n.value, (int, float)) and not isinstance(n.value, bool)} | {0.0, 1.0})
        names = {n.id for n in ast.walk(test) if isinstance(n, ast.Name)}
        if names - {var} or any(isinstance(n, (ast.Call, ast.Attribute, ast.Subscript)) for n in ast.walk(test)):
            ctx.unrecognised("C07-d", site, f"the test `{norm_src(test)}` involves more than {var} and constants")
            continue
        pts = [consts[0] - 1.0] + consts + [consts[-1] + 1.0] + [(a + b) / 2 for a, b in zip(consts, consts[1:])]
        wrong = None
        code = compile(ast.Expression(body=test), "<guard>", "eval")
        for x in sorted(pts):
            replaced = bool(eval(code, {"__builtins__": {}}, {var: x}))     # a closed formula over one number: comparisons with constants only
            if replaced == valid(x):
                wrong = x
                break
        if wrong is None:
            ctx.ok("C07-d", site, f"replaces exactly the values outside {doc}")
        else:
            ctx.violation("C07-d", u.relpath, "_path", norm_src(test), f"the value {var}={wrong:g} is {'inside' if valid(wrong) else 'outside'} the documented range ({doc}) "
                          f"but `{norm_src(test)}` {'replaces it by the default' if valid(wrong) else 'lets it through'}", line=g["if"].lineno, site=site)
    for cn, mod in (("SparseLinearModel", "gemclus.sparse._linear_sparse"), ("SparseMLPModel", "gemclus.sparse._mlp_sparse")):
        pf = pm.classes[cn].methods["path"]
        pd, qd = func_defaults(pf), defaults
        same = all(k in pd and norm_src(pd[k]) == norm_src(v) for k, v in qd.items() if k != "y")
        calls = [n for n in ast.walk(pf) if isinstance(n, ast.Call) and call_name(n) == "_path"]
        fwd = calls and [norm_src(a) for a in calls[0].args] == ["self"] + [p for p in func_params(f)[1:]]
        if same and fwd:
            ctx.ok("C07-d", f"{cn}.path: same defaults as _path and arguments forwarded in order")
        else:
            ctx.violation("C07-d", pm.classes[cn].unit.relpath, f"{cn}.path", norm_src(calls[0])[:160] if calls else "_path call",
                          "path's defaults differ from _path's or its arguments are not forwarded in order", line=pf.lineno, site=f"{cn}.path: forwarding")

    # ------------------------------------------------------------------ e best weights
    snaps = [s for s in ast.walk(f) if isinstance(s, ast.Assign) and isinstance(s.targets[0], ast.Name) and s.targets[0].id == "best_weights"]
    site = "_path: best-weights snapshots"
    wdef = [s for s in f.body if isinstance(s, ast.Assign) and norm_src(s.value) == "clf._get_weights()"]
    probs = []
    if len(snaps) != 2 or not wdef:
        ctx.unrecognised("C07-e", site, f"expected an initial and an in-loop assignment of best_weights from clf._get_weights(); found {len(snaps)}")
        snaps = None
    else:
        wname = wdef[0].targets[0].id
        for s in snaps:
            v = s.value
            okc = isinstance(v, ast.ListComp) and len(v.generators) == 1 and norm_src(v.generators[0].iter) == wname and not v.generators[0].ifs \
                and norm_src(v.elt) in (f"{norm_src(v.generators[0].target)}.copy()", f"np.copy({norm_src(v.generators[0].target)})", f"np.array({norm_src(v.generators[0].target)})")
            if not okc:
                probs.append(f"`{norm_src(s)}` does not copy every weight array: the snapshot aliases the live weights")
        loop_snap = [s for s in snaps if _within(s, W)]
        init_snap = [s for s in snaps if not _within(s, W)]
        if len(loop_snap) == 1 and len(init_snap) == 1:
            conds = [p for p in parents(loop_snap[0]) if isinstance(p, ast.If) and _within(p, W)]
            okt = False
            if len(conds) == 1 and conds[0] in W.body:
                try:
                    d, op = compare_normal(conds[0].test)
                    want = to_rat(ast.parse("iteration_gemini_score - keep_threshold * best_gemini_score", mode="eval").body)
                    okt = op == ">=" and d.equals(want)
                except NotScalarArithmetic:
                    okt = False
            if not okt:
                probs.append("the in-loop snapshot is not taken under `iteration_gemini_score >= keep_threshold * best_gemini_score`")
            # best score update
            ups = [s for s in ast.walk(W) if isinstance(s, ast.Assign) and norm_src(s) == "best_gemini_score = iteration_gemini_score"]
            if len(ups) != 1:
                probs.append("the best score is not updated exactly once per step")
            else:
                uc = [p for p in parents(ups[0]) if isinstance(p, ast.If) and _within(p, W)]
                cj = [norm_src(v) for c in uc for v in (c.test.values if isinstance(c.test, ast.BoolOp) and isinstance(c.test.op, ast.And) else [c.test])]
                if not any(c in ("iteration_gemini_score >= best_gemini_score", "iteration_gemini_score > best_gemini_score") for c in cj):
                    probs.append("the best score is raised without comparing with the previous best")
                # the all-features test: the number of selected features of the model AS TRAINED IN THIS STEP equals the number of features
                COUNT = "clf._n_selected_features()"
                allf = None         # None: no such test; "ok"; or a description of what is wrong
                rdW = cfg.reaching()
                for c_if in uc:
                    for v in (c_if.test.values if isinstance(c_if.test, ast.BoolOp) and isinstance(c_if.test.op, ast.And) else [c_if.test]):
                        if not (isinstance(v, ast.Compare) and len(v.ops) == 1 and isinstance(v.ops[0], ast.Eq)):
                            continue
                        sides = [v.left, v.comparators[0]]
                        if not any(norm_src(x) in ("X.shape[1]", "len(X[0])", "clf.n_features_in_") for x in sides):
                            continue
                        other = [x for x in sides if norm_src(x) not in ("X.shape[1]", "len(X[0])", "clf.n_features_in_")]
                        if len(other) != 1:
                            continue
                        o = other[0]
                        if norm_src(o) in (COUNT, COUNT + ".item()"):
                            allf = "ok"
                        elif isinstance(o, ast.Name):
                            defs = rdW.get(c_if, {}).get(o.id, frozenset())
                            top = {d: next((b for b in W.body if d is b or (d is not ENTRY and _within(d, b))), None) for d in defs}
                            fresh = all(d is not ENTRY and isinstance(d, ast.Assign) and norm_src(d.value) in (COUNT, COUNT + ".item()") and top[d] is not None
                                        and c_if in W.body and Wi_top is not None and W.body.index(Wi_top) < W.body.index(top[d]) < W.body.index(c_if) for d in defs) and bool(defs)
                            if fresh:
                                allf = "ok"
                            elif all(d is not ENTRY and isinstance(d, ast.Assign) and norm_src(d.value) in (COUNT, COUNT + ".item()") for d in defs) and defs:
                                allf = (f"the all-features test reads `{o.id}`, counted before the training of the current step (its definitions: "
                                        f"{sorted(set(getattr(d, 'lineno', 0) for d in defs))}): the step that discards the first features can still raise the best score")
                            else:
                                allf = allf or None
                if allf is None:
                    probs.append("the best score can be raised after features were discarded (all-features test missing)")
                elif allf != "ok":
                    probs.append(allf)
                if conds and uc and uc[0] in W.body and conds[0] in W.body and W.body.index(uc[0]) > W.body.index(conds[0]):
                    probs.append("the snapshot test runs before the best score of the step is updated")
            # initial best score is the validation score of the unpenalised fit
            ib = [s for s in f.body if isinstance(s, ast.Assign) and "best_gemini_score" in norm_src(s.targets[0]) and "compute_val_score(" in norm_src(s.value)]
            fitc = [s for s in f.body if isinstance(s, ast.Expr) and norm_src(s) == "clf.fit(X, y)"]
            if not (ib and fitc and f.body.index(fitc[0]) < f.body.index(ib[0]) < f.body.index(init_snap[0]) if init_snap[0] in f.body else False):
                probs.append("the initial best score / snapshot is not taken right after the unpenalised fit")
    if snaps is None:
        pass
    elif probs:
        ctx.violation("C07-e", u.relpath, "_path", "best_weights", "; ".join(probs), line=(snaps[0].lineno if snaps else f.lineno), site=site)
    else:
        for k in ("snapshots are element-wise copies of clf._get_weights()", "in-loop snapshot under score >= keep_threshold * best", "best score raised only with all features, before the snapshot test",
                  "initial best score and snapshot right after the alpha=0 fit", "best score updated once per step"):
            ctx.ok("C07-e", f"_path: {k}")
    # weights list is the live one the optimiser and the snapshots see
    opt = [s for s in f.body if isinstance(s, ast.Assign) and attr_chain(s.targets[0]) == "clf.optimiser_"]
    if opt and wdef and isinstance(opt[0].value, ast.Call) and opt[0].value.args and norm_src(opt[0].value.args[0]) == wdef[0].targets[0].id \
            and f.body.index(opt[0]) < f.body.index(W):
        ctx.ok("C07-e", "_path: the path optimiser is built on the same weights list before the loop")
    else:
        ctx.violation("C07-e", u.relpath, "_path", "clf.optimiser_", "the path's optimiser is not (re)built on the model's weights before the loop", line=f.lineno, site="_path: optimiser")

    # ------------------------------------------------------------------ f restore
    for cn in ("SparseLinearModel", "SparseMLPModel"):
        ci = pm.classes[cn]
        pf = ci.methods["path"]
        WC, wf, fixed, _ = weights_list(pm, ci)
        site = f"{cn}.path: restore"
        copies = [n for n in ast.walk(pf) if isinstance(n, ast.Call) and call_name(n) == "np.copyto"]
        probs = []
        got = []
        for c in copies:
            dst = attr_chain(c.args[0]) or ""
            srcn = c.args[1]
            # loop idioms over the weights in the order of _get_weights(): zip(self._get_weights(), best_weights) / enumerate(self._get_weights())
            loop = next((p_ for p_ in parents(c) if isinstance(p_, ast.For)), None)
            if loop is not None and isinstance(loop.iter, ast.Call) and len(c.args) >= 2:
                itn = call_name(loop.iter)
                tg = [norm_src(e) for e in loop.target.elts] if isinstance(loop.target, ast.Tuple) else []
                a0, a1 = norm_src(c.args[0]), norm_src(c.args[1])
                zip_ok = itn == "zip" and len(loop.iter.args) == 2 and norm_src(loop.iter.args[0]) == "self._get_weights()" and norm_src(loop.iter.args[1]) == "best_weights" \
                    and tg == [a0, a1]
                enum_ok = itn == "enumerate" and len(loop.iter.args) == 1 and norm_src(loop.iter.args[0]) == "self._get_weights()" and len(tg) == 2 and a0 == tg[1] \
                    and a1 == f"best_weights[{tg[0]}]"
                if zip_ok or enum_ok:
                    got.extend((w, i) for i, w in enumerate(fixed))
                    from ..flow import implied_literals
                    known = implied_literals(c)
                    if ("restore_best_weights", True) not in known or ("self.dynamic", False) not in known:
                        probs.append(f"{norm_src(c)} is not under `restore_best_weights and not dynamic`")
                    continue
            if not (isinstance(srcn, ast.Subscript) and norm_src(srcn.value) == "best_weights" and isinstance(srcn.slice, ast.Constant)):
                probs.append(f"{norm_src(c)} does not copy from best_weights[i]")
                continue
            got.append((dst.replace("self.", ""), srcn.slice.value))
            from ..flow import implied_literals
            known = implied_literals(c)
            if ("restore_best_weights", True) not in known or ("self.dynamic", False) not in known:
                probs.append(f"{norm_src(c)} is not under `restore_best_weights and not dynamic`")
        want = [(w, i) for i, w in enumerate(fixed)]
        if sorted(got) != sorted(want):
            probs.append(f"restored (attribute, index) pairs {sorted(got)} differ from the order of _get_weights() {want}")
        call = [n for n in ast.walk(pf) if isinstance(n, ast.Call) and call_name(n) == "_path"]
        if call and copies and min(c.lineno for c in copies) < call[0].lineno:
            probs.append("weights are restored before the path was run")
        rets = [s for s in pf.body if isinstance(s, ast.Return)]
        if not (rets and norm_src(rets[0].value).strip("()") == "best_weights, geminis, group_lasso_penalties, alphas, n_features"):
            probs.append("path does not return _path's results unchanged")
        if probs:
            ctx.violation("C07-f", ci.unit.relpath, f"{cn}.path", norm_src(copies[0]) if copies else "np.copyto", "; ".join(probs), line=pf.lineno, site=site)
        else:
            ctx.ok("C07-f", site, f"{len(copies)} weights restored in the order of _get_weights()")
            ctx.ok("C07-f", f"{cn}.path: returns _path's tuple")


def loops_entered(pm, te, cfg, f, guards):
    """loop headers whose body certainly runs at least once"""
    out = set()
    rd = cfg.reaching()
    sparse_tabs = [te.class_constraints(pm.classes[c]) for c in ("SparseLinearModel", "SparseMLPModel")]
    for n in cfg.nodes:
        if isinstance(n, ast.For):
            it = n.iter
            if isinstance(it, ast.Call) and (call_name(it) or "").endswith("._batchify"):
                out.add(n)
        elif isinstance(n, ast.While):
            inside = set(ast.walk(n))
            from ..pm import canon_node
            ctest = canon_node(n.test)
            conj = ctest.values if isinstance(ctest, ast.BoolOp) and isinstance(ctest.op, ast.And) else [ctest]
            allok = True
            for c in conj:
                if not (isinstance(c, ast.Compare) and len(c.ops) == 1 and isinstance(c.ops[0], (ast.Lt, ast.LtE))):
                    allok = False
                    break
                lo = _upper_at_entry(cfg, rd, n, inside, c.left)
                hi = _lower_bound(pm, sparse_tabs, cfg, n, c.comparators[0], guards)
                if lo is None or hi is None:
                    allok = False
                    break
                strict_hi, hv = hi
                ok = lo < hv or (lo == hv and (isinstance(c.ops[0], ast.LtE) and not strict_hi)) or (lo == hv and isinstance(c.ops[0], ast.Lt) and strict_hi)
                if not ok:
                    allok = False
                    break
            if allok:
                out.add(n)
    return out


def _upper_at_entry(cfg, rd, loop, inside, expr):
    """constant value of a name at the first evaluation of the loop test (only definitions from outside the loop)"""
    if is_const(expr):
        return const(expr)
    if isinstance(expr, ast.Name):
        outer = [d for d in rd[loop].get(expr.id, ()) if d not in inside]
        if len(outer) == 1 and outer[0] is not ENTRY and isinstance(outer[0], ast.Assign) and is_const(outer[0].value):
            return const(outer[0].value)
    return None


def _lower_bound(pm, tabs, cfg, loop, expr, guards):
    """(strict, value): expr > value (strict) or expr >= value, established before the loop"""
    if is_const(expr):
        return (False, const(expr))
    ch = attr_chain(expr)
    if ch and ch.startswith("clf.") and ch.count(".") == 1:
        hp = ch[4:]
        los = []
        for t in tabs:
            for d in t.get(hp, []):
                if d.kind == "interval":
                    los.append((d.closed not in ("left", "both"), d.lo))
                else:
                    return None
        if los and all(x == los[0] for x in los):
            return los[0]
        return None
    if isinstance(expr, ast.Name):
        g = guards.get(expr.id)
        if g is not None and cfg.dominates(g["if"], loop):
            for bound in (0, 1):
                pass
            # `if v <= c: v = k` with k > c  gives v > c
            from ..pm import canon_node
            t = canon_node(g["test"])
            parts = t.values if isinstance(t, ast.BoolOp) else [t]
            for c in parts:
                if isinstance(c, ast.Compare) and norm_src(c.left) == expr.id and is_const(c.comparators[0]) and isinstance(c.ops[0], (ast.LtE, ast.Lt)):
                    b = const(c.comparators[0])
                    if g["default"] > b:
                        return (isinstance(c.ops[0], ast.LtE), b)
        if expr.id == "len(X)":
            return (False, 1)
    if norm_src(expr) in ("len(X)",):
        return (False, 1)
    return None


def _loop_of(n):
    for p in parents(n):
        if isinstance(p, (ast.For, ast.While)):
            return p
    return None


def _within(node, container):
    return any(p is container for p in parents(node))


def _is_source_def(d, var):
    return isinstance(d, ast.Assign) and norm_src(d.value) in ("clf.alpha",)


def _stmt(n):
    while not isinstance(n, ast.stmt):
        n = n._parent
    return n


def _branch(ifnode, node):
    for s in ifnode.body:
        if any(x is node for x in ast.walk(s)):
            return True
    return False


def controls(pm, tier):
    out = []

    def mut(mod, find, repl, rule, name, also=()):
        def apply(pm_):
            u = pm_.unit(mod)
            if find not in u.src:
                return None
            return {u.relpath: u.src.replace(find, repl, 1)}
        out.append({"name": name, "rule": rule, "apply": apply, "also": also})
    LS = "gemclus.sparse._linear_sparse"
    MS = "gemclus.sparse._mlp_sparse"
    mut(S, "    if alpha <= 0:\n", "    if alpha < 0:\n", "C07-a", "alpha=0 no longer normalised")
    mut(S, "    if max_patience <= 0:\n", "    if max_patience < 0:\n", "C07-b", "max_patience=0 leaves the score unbound")
    mut(S, "        alphas.append(alpha)\n", "", "C07-c", "alphas never appended")
    mut(S, "        clf.alpha = alpha\n\n", "        clf.alpha = alpha\n        alphas.append(alpha)\n\n", "C07-c", "alphas appended twice / before the abort")
    mut(S, "        alpha_multiplier = 1.05\n", "        alpha_multiplier = 1.5\n", "C07-d", "guard assigns another default")
    mut(S, "    best_weights = [w.copy() for w in weights]\n\n    if clf.verbose:\n        print(f\"Finished initial", "    best_weights = weights.copy()\n\n    if clf.verbose:\n        print(f\"Finished initial", "C07-e", "initial snapshot aliases the live weights")
    mut(S, "        if iteration_gemini_score >= best_gemini_score and clf._n_selected_features() == X.shape[1]:", "        if iteration_gemini_score >= best_gemini_score:", "C07-e", "best score raised after feature loss")
    mut(S, "        if iteration_gemini_score >= keep_threshold * best_gemini_score:", "        if iteration_gemini_score >= keep_threshold + best_gemini_score:", "C07-e", "threshold added instead of multiplied")
    mut(MS, "                np.copyto(self.W_skip_, best_weights[2])\n                np.copyto(self.b1_, best_weights[3])", "                np.copyto(self.W_skip_, best_weights[3])\n                np.copyto(self.b1_, best_weights[2])", "C07-f", "restore indices swapped")
    mut(LS, "            if not self.dynamic:\n                if self.verbose:\n                    print(\"Restoring best weights\")\n                np.copyto(self.W_, best_weights[0])\n                np.copyto(self.b_, best_weights[1])",
        "            if not self.dynamic:\n                if self.verbose:\n                    print(\"Restoring best weights\")\n                np.copyto(self.W_, best_weights[0])", "C07-f", "bias not restored")
    mut(S, "    if keep_threshold < 0 or keep_threshold > 1:", "    if not 0 <= keep_threshold < 1:", "C07-d", "legal keep_threshold = 1 replaced")
    mut(S, "    if max_patience <= 0:", "    if max_patience < 0:", "C07-d", "max_patience = 0 accepted")
    return out
