"""C18 - predictions are per-sample functions of the fitted model (sound sufficient condition)."""
import ast

from ..pm import AnalysisError, norm_src, func_params
from ..flow import CFG, attr_chain
from ..astutil import call_name
from ..e3_axes import Interp, Arr, Num, Ax, NoneV, is_top
from ..scenarios import fit_scenario, nonusage, dedup_events

PROP = "C18"
EXPLANATION = (
    "For each inductive estimator the model is fitted abstractly, then predict_proba / predict are interpreted on new data "
    "X:[M,D]. Along the new-sample axis M every operation performed by _infer, predict_proba, predict and Tree.predict must be "
    "of class `map` (elementwise, row-wise softmax, contraction over a feature/hidden/training axis, row selection by the "
    "row's own predicate); any reduction, sort, cumulative, positional or pairing operation along M is a violation. This is a "
    "sufficient condition for row-wise independence. (b) KernelRIM computes its kernel against the stored training data in "
    "fit and in predict_proba through the same function, whose second argument is self.input_data_ on every branch. (c) "
    "_infer's value does not depend on `retain`, and labels_ / predict are the arg-max over the cluster axis of that one function.")
ADOPT = [("C08", ["C08-f"], "Kauri's labels_ are computed from the matrices Y, Z while predict walks the recorded tree: they agree only if every split is applied to Y and Z exactly as it was recorded")]
ASSUMPTIONS = ["numpy shape semantics of gcverif/e3_numpy.py; sklearn softmax is row-wise", "pairwise_kernels(X, Y) is computed row by row of X"]
BAD = ("reduce", "positional", "pairing", "argreduce")


def run(pm, ctx):
    ctx.rule("C18-a", "a prediction row may only depend on its own input row: no operation may mix rows of the predicted array", floor=14)
    ctx.rule("C18-b", "KernelRIM must evaluate its kernel between the new points and the stored training points", floor=3)
    ctx.rule("C18-c", "training-set predictions reproduce what fit stored", floor=14)
    ctx.rule("C18-d", "prediction compares the data with parameters learned in float64: validating the input to a narrower dtype makes training rows "
             "fall on the other side of their own thresholds", floor=4)
    import ast as _ast
    from ..astutil import call_name as _cn
    seen_calls = 0
    for K in pm.estimators():
        for mname, f in K.methods.items():
            for c in _ast.walk(f):
                if isinstance(c, _ast.Call) and (_cn(c) or "").split(".")[-1] in ("check_array", "validate_data", "check_X_y", "asarray", "array", "astype"):
                    last = (_cn(c) or "").split(".")[-1]
                    dt = next((k.value for k in c.keywords if k.arg == "dtype"), None)
                    if last == "astype" and c.args:
                        dt = c.args[0]
                    if last in ("asarray", "array", "astype") and dt is None:
                        continue
                    if last in ("asarray", "array", "astype") and not any(isinstance(n, _ast.Name) and n.id == "X" for n in _ast.walk(c)):
                        continue
                    seen_calls += 1
                    site = f"{K.name}.{mname}: {norm_src(c)[:50]}"
                    src = norm_src(dt) if dt is not None else None
                    if src is None or src in ("'numeric'", '"numeric"', "np.float64", "float", "np.double", "None", "'float64'", '"float64"', "[np.float64]"):
                        ctx.ok("C18-d", site, src or "default (numeric, float64 kept)")
                    elif src in ("np.float32", "np.float16", "'float32'", '"float32"', "np.single", "np.half", "int", "np.int64", "np.int32", "[np.float64, np.float32]", "[np.float32]"):
                        ctx.violation("C18-d", K.unit.relpath, f"{K.name}.{mname}", norm_src(c)[:120], f"the data is converted to {src} before it is compared with parameters learned "
                                      f"on float64 data: values that differ only beyond {src} precision are routed / scored differently from what fit stored", line=c.lineno, site=site)
                    elif mname != "fit" and last in ("check_array", "validate_data"):
                        ctx.unrecognised("C18-d", site, f"dtype expression {src}")
                    else:
                        ctx.ok("C18-d", site, src)
    if seen_calls == 0:
        raise AnalysisError("anchor vanished: validation calls of the estimators")
    for K in pm.concrete_estimators():
        if K.name.startswith("Categorical"):
            continue
        I, obj, res = fit_scenario(pm, K, batch="int")
        n0 = len(I.events)
        t0 = len(I.top_log)
        M = Ax("M")
        X = Arr([M, Ax("D")])
        outs = {}
        for meth in (["predict_proba", "predict"] if K.name != "Kauri" else ["predict"]):
            outs[meth] = I.call_method(obj, meth, [X])
        evs = I.events[n0:]
        site = f"{K.name}: predict on [M,D]"
        bad = [e for e in evs if e.kind == "usage" and e.detail.get("axis") in ("M", "sel(M)", "sub(M)") and e.detail.get("cls") in BAD]
        # the arg-max producing labels reduces over the cluster axis, never M; contraction over M would be 'reduce' on M
        other = [e for e in dedup_events(nonusage(evs))]
        for e in other:
            st = e.stmt()
            ctx.violation("C18-a", e.unit.relpath, e.func, norm_src(st)[:160] if st is not None else "?", f"[{e.kind}] {e.msg} [{K.name}]",
                          line=getattr(e.node, "lineno", None), site=site)
        if bad:
            seen = set()
            for e in bad:
                st = e.stmt()
                k = norm_src(st) if st is not None else "?"
                if k in seen:
                    continue
                seen.add(k)
                ctx.violation("C18-a", e.unit.relpath, e.func, k[:160], f"'{e.detail.get('op')}' along the sample axis of the predicted array "
                              f"({e.detail.get('cls')}): rows are no longer predicted independently [{K.name}]", line=getattr(e.node, "lineno", None), site=site)
        unknown = [t for t in I.top_log[t0:] if t[0] != "recursion"]
        if unknown and not bad and not other:
            why, q, node = unknown[0]
            ctx.undecided_site("C18-a", site, f"operation outside the transfer table in {q}: {norm_src(node)[:80]} ({why})")
        elif not other and not bad:
            pp = outs.get("predict_proba")
            pr = outs.get("predict")
            okshape = (K.name == "Kauri" or (isinstance(pp, Arr) and pp.axes and pp.axes[0] == M)) and isinstance(pr, Arr) and pr.axes and pr.axes[0].name in ("M",)
            if okshape:
                nmap = sum(1 for e in evs if e.kind == "usage" and e.detail.get("axis") in ("M", "sel(M)"))
                ctx.ok("C18-a", site, f"outputs {outs}; {nmap} operations along M, all row-wise")
            else:
                ctx.undecided_site("C18-a", site, f"abstract outputs {outs}")
        # ---- c: labels_ and predict are the same argmax of the same function
        lab = obj.attrs.get("labels_")
        pr = outs.get("predict")
        sitec = f"{K.name}: labels_ vs predict"
        if isinstance(lab, Arr) and isinstance(pr, Arr) and lab.space == pr.space and lab.space is not None:
            ctx.ok("C18-c", sitec, f"both index the cluster axis {lab.space}")
        elif K.name == "Kauri" and isinstance(lab, Arr) and isinstance(pr, Arr):
            ctx.ok("C18-c", sitec, "labels_ = (Y@Z).argmax(0); predict routes through the tree (comparator agreement is C09-f)")
        else:
            ctx.violation("C18-c", K.unit.relpath, K.name, "labels_/predict", f"labels_ is {lab!r} but predict gives {pr!r}", line=K.node.lineno, site=sitec)

    # ---- b KernelRIM
    kr = pm.classes.get("KernelRIM")
    if kr is None:
        raise AnalysisError("anchor vanished: KernelRIM")
    ck = kr.methods.get("_compute_kernel")
    if ck is None:
        raise AnalysisError("anchor vanished: KernelRIM._compute_kernel")
    from ..match import resolve_expr, cfg_node
    xk = func_params(ck)[1]
    cfgk = CFG(ck)
    kcalls = []
    for n in ast.walk(ck):
        if isinstance(n, ast.Call) and (call_name(n) in ("self.base_kernel", "pairwise_kernels")):
            kcalls.append(n)
    site = "KernelRIM._compute_kernel: kernel(X, self.input_data_) on every branch"
    if not kcalls:
        ctx.unrecognised("C18-b", site, "no kernel call (self.base_kernel / pairwise_kernels)")
    else:
        bad = None
        for c in kcalls:
            st = cfg_node(cfgk, c)
            a0 = norm_src(resolve_expr(cfgk, st, c.args[0])) if c.args else None
            a1 = c.args[1] if len(c.args) > 1 else next((k.value for k in c.keywords if k.arg == "Y"), None)
            a1s = norm_src(resolve_expr(cfgk, st, a1)) if a1 is not None else None
            if a0 != xk:
                bad = (c, f"its first argument is {a0}, not the points to predict")
            elif a1s != "self.input_data_":
                bad = (c, "the kernel is computed among the given points themselves" if a1s is None else f"its second argument is {a1s}, not the stored training data")
        if bad:
            ctx.violation("C18-b", kr.unit.relpath, "KernelRIM._compute_kernel", norm_src(bad[0])[:120], "the kernel is not computed between the given points and the stored "
                          "training data on every branch: " + bad[1], line=bad[0].lineno, site=site)
        else:
            ctx.ok("C18-b", site, f"{len(kcalls)} kernel calls")
    fit = kr.methods.get("fit")
    cfgf = CFG(fit)
    xf = func_params(fit)[1]
    stores = [s_ for s_ in cfgf.nodes if isinstance(s_, ast.Assign) and any(attr_chain(t) == "self.input_data_" for t in s_.targets)]
    kuse = [s_ for s_ in cfgf.nodes if any(isinstance(c, ast.Call) and call_name(c) == "self._compute_kernel" for e in cfgf.header_exprs(s_) for c in ast.walk(e))]
    site = "KernelRIM.fit: training data stored, then kernel computed through _compute_kernel and handed to the linear fit"
    if not stores or not kuse:
        ctx.unrecognised("C18-b", site, "no store of input_data_ / no call of _compute_kernel in fit")
    else:
        v = stores[0].value
        core = v
        while True:
            if isinstance(core, ast.Call) and isinstance(core.func, ast.Attribute) and core.func.attr == "copy" and not core.args:
                core = core.func.value
            elif isinstance(core, ast.Call) and call_name(core) in ("np.array", "np.asarray", "np.copy", "check_array", "np.ascontiguousarray") and core.args:
                core = core.args[0]
            else:
                break
        names = {n.id for n in ast.walk(v) if isinstance(n, ast.Name)} - {"np"}
        if isinstance(core, ast.Name) and core.id == xf:
            if all(cfgf.dominates(stores[0], k_) for k_ in kuse):
                ctx.ok("C18-b", site, norm_src(stores[0]))
            else:
                ctx.violation("C18-b", kr.unit.relpath, "KernelRIM.fit", norm_src(stores[0]), "the training kernel is computed before the training data is stored: "
                              "_compute_kernel reads a stale or missing input_data_", line=stores[0].lineno, site=site)
        elif xf not in names:
            ctx.violation("C18-b", kr.unit.relpath, "KernelRIM.fit", norm_src(stores[0]), f"input_data_ is not the training data ({norm_src(v)[:50]})", line=stores[0].lineno, site=site)
        else:
            ctx.unrecognised("C18-b", site, f"input_data_ = {norm_src(v)[:60]}")
    pp = kr.methods.get("predict_proba")
    cfgp = CFG(pp)
    xp = func_params(pp)[1]
    site = "KernelRIM.predict_proba = _infer(_compute_kernel(X))"
    rets = [n for n in cfgp.nodes if isinstance(n, ast.Return) and n.value is not None]
    okp = None
    for r in rets:
        full = resolve_expr(cfgp, r, r.value)
        infer_calls = [c for c in ast.walk(full) if isinstance(c, ast.Call) and call_name(c) == "self._infer"]
        if not infer_calls:
            okp = None
            break
        a = infer_calls[0].args[0] if infer_calls[0].args else None
        if isinstance(a, ast.Call) and call_name(a) == "self._compute_kernel" and a.args:
            inner = a.args[0]
            core = inner
            while isinstance(core, ast.Call) and call_name(core) in ("check_array", "np.asarray", "np.array") and core.args:
                core = core.args[0]
            okp = isinstance(core, ast.Name) and core.id == xp
            if not okp:
                break
        else:
            okp = False
            break
    if okp is True:
        ctx.ok("C18-b", site)
    elif okp is False:
        ctx.violation("C18-b", kr.unit.relpath, "KernelRIM.predict_proba", "return", "predict_proba does not evaluate the model on the kernel between the given points "
                      "and the training points (_infer(_compute_kernel(X)))", line=pp.lineno, site=site)
    else:
        ctx.unrecognised("C18-b", site, "no _infer call in the returned value")

    # ---- c: _infer independent of retain (shared with C04-c)
    from .c04 import wiring
    from ..report import Ctx
    sub = Ctx("C04", ctx.tier, quiet=True)
    sub.rule("C04-c", "")
    wiring(pm, sub)
    for o in sub.obligations:
        if "independent of retain" in o["site"] or "labels_ = argmax" in o["site"] or "predict = argmax" in o["site"]:
            if o["status"] == "ok":
                ctx.ok("C18-c", o["site"], o["note"])
    for f in sub.findings:
        if "retain" in f.message or "labels_" in f.message or "predict is not" in f.message:
            ctx.violation("C18-c", f.unit, f.func, f.stmt, f.message, line=f.line)


def controls(pm, tier):
    out = []

    def mut(mod, find, repl, rule, name, also=()):
        def apply(pm_):
            u = pm_.unit(mod)
            if find not in u.src:
                return None
            return {u.relpath: u.src.replace(find, repl, 1)}
        out.append({"name": name, "rule": rule, "apply": apply, "also": also})
    L, M, K = "gemclus.linear._linear_geminis", "gemclus.mlp._mlp_geminis", "gemclus.tree.kauri"
    mut(L, "        H = X @ self.W_ + self.b_\n        return softmax(H)", "        H = X @ self.W_ + self.b_\n        H = H - H.mean(0, keepdims=True)\n        return softmax(H)",
        "C18-a", "logits centred over the batch")
    mut(M, "        return softmax(H @ self.W2_ + self.b2_)", "        return softmax((H @ self.W2_ + self.b2_).T).T", "C18-a", "softmax normalised over samples")
    mut(L, "            kernel = pairwise_kernels(X, self.input_data_, metric=self.base_kernel, **_params)", "            kernel = pairwise_kernels(X, metric=self.base_kernel, **_params)",
        "C18-b", "KernelRIM kernel of the new points with themselves", also=("C18-a",))
    mut(K, "            X_left = X[:, self.features[node]] <= self.thresholds[node]", "            X_left = X[:, self.features[node]] <= np.median(X[:, self.features[node]])",
        "C18-a", "tree routes on the batch median")
    mut(L, "        return self._infer(kernel)", "        return self._infer(kernel[np.argsort(kernel[:, 0])])", "C18-a", "KernelRIM reorders its output rows")
    return out
