"""C18 - predictions are per-sample functions of the fitted model (sound sufficient condition)."""
import ast

from ..pm import AnalysisError, norm_src, func_params
from ..flow import CFG, attr_chain
from ..astutil import call_name
from ..e3_axes import Interp, Arr, Num, Ax, NoneV, is_top
from ..scenarios import fit_scenario, nonusage, dedup_events

PROP = "C18"
EXPLANATION = (
    "For each inductive estimator the model is fitted abstractly, then predict_proba / predict are interpreted on new data "
    "X:[M,D]. Along the new-sample axis M every operation performed by _infer, predict_proba, predict and Tree.predict must be "
    "of class `map` (elementwise, row-wise softmax, contraction over a feature/hidden/training axis, row selection by the "
    "row's own predicate); any reduction, sort, cumulative, positional or pairing operation along M is a violation. This is a "
    "sufficient condition for row-wise independence. (b) KernelRIM computes its kernel against the stored training data in "
    "fit and in predict_proba through the same function, whose second argument is self.input_data_ on every branch. (c) "
    "_infer's value does not depend on `retain`, and labels_ / predict are the arg-max over the cluster axis of that one function.")
ASSUMPTIONS = ["numpy shape semantics of gcverif/e3_numpy.py; sklearn softmax is row-wise", "pairwise_kernels(X, Y) is computed row by row of X"]
BAD = ("reduce", "positional", "pairing", "argreduce")


def run(pm, ctx):
    ctx.rule("C18-a", "a prediction row may only depend on its own input row: no operation may mix rows of the predicted array", floor=14)
    ctx.rule("C18-b", "KernelRIM must evaluate its kernel between the new points and the stored training points", floor=3)
    ctx.rule("C18-c", "training-set predictions reproduce what fit stored", floor=14)
    ctx.rule("C18-d", "prediction compares the data with parameters learned in float64: validating the input to a narrower dtype makes training rows "
             "fall on the other side of their own thresholds", floor=4)
    import ast as _ast
    from ..astutil import call_name as _cn
    seen_calls = 0
    for K in pm.estimators():
        for mname, f in K.methods.items():
            for c in _ast.walk(f):
                if isinstance(c, _ast.Call) and (_cn(c) or "").split(".")[-1] in ("check_array", "validate_data", "check_X_y", "asarray", "array", "astype"):
                    last = (_cn(c) or "").split(".")[-1]
                    dt = next((k.value for k in c.keywords if k.arg == "dtype"), None)
                    if last == "astype" and c.args:
                        dt = c.args[0]
                    if last in ("asarray", "array", "astype") and dt is None:
                        continue
                    if last in ("asarray", "array", "astype") and not any(isinstance(n, _ast.Name) and n.id == "X" for n in _ast.walk(c)):
                        continue
                    seen_calls += 1
                    site = f"{K.name}.{mname}: {norm_src(c)[:50]}"
                    src = norm_src(dt) if dt is not None else None
                    if src is None or src in ("'numeric'", '"numeric"', "np.float64", "float", "np.double", "None", "'float64'", '"float64"', "[np.float64]"):
                        ctx.ok("C18-d", site, src or "default (numeric, float64 kept)")
                    elif src in ("np.float32", "np.float16", "'float32'", '"float32"', "np.single", "np.half", "int", "np.int64", "np.int32", "[np.float64, np.float32]", "[np.float32]"):
                        ctx.violation("C18-d", K.unit.relpath, f"{K.name}.{mname}", norm_src(c)[:120], f"the data is converted to {src} before it is compared with parameters learned "
                                      f"on float64 data: values that differ only beyond {src} precision are routed / scored differently from what fit stored", line=c.lineno, site=site)
                    elif mname != "fit" and last in ("check_array", "validate_data"):
                        ctx.unrecognised("C18-d", site, f"dtype expression {src}")
                    else:
                        ctx.ok("C18-d", site, src)
    if seen_calls == 0:
        raise AnalysisError("anchor vanished: validation calls of the estimators")
    for K in pm.concrete_estimators():
        if K.name.startswith("Categorical"):
            continue
        I, obj, res = fit_scenario(pm, K, batch="int")
        n0 = len(I.events)
        t0 = len(I.top_log)
        M = Ax("M")
        X = Arr([M, Ax("D")])
        outs = {}
        for meth in (["predict_proba", "predict"] if K.name != "Kauri" else ["predict"]):
            outs[meth] = I.call_method(obj, meth, [X])
        evs = I.events[n0:]
        site = f"{K.name}: predict on [M,D]"
        bad = [e for e in evs if e.kind == "usage" and e.detail.get("axis") in ("M", "sel(M)", "sub(M)") and e.detail.get("cls") in BAD]
        # the arg-max producing labels reduces over the cluster axis, never M; contraction over M would be 'reduce' on M
        other = [e for e in dedup_events(nonusage(evs))]
        for e in other:
            st = e.stmt()
            ctx.violation("C18-a", e.unit.relpath, e.func, norm_src(st)[:160] if st is not None else "?", f"[{e.kind}] {e.msg} [{K.name}]",
                          line=getattr(e.node, "lineno", None), site=site)
        if bad:
            seen = set()
            for e in bad:
                st = e.stmt()
                k = norm_src(st) if st is not None else "?"
                if k in seen:
                    continue
                seen.add(k)
                ctx.violation("C18-a", e.unit.relpath, e.func, k[:160], f"'{e.detail.get('op')}' along the sample axis of the predicted array "
                              f"({e.detail.get('cls')}): rows are no longer predicted independently [{K.name}]", line=getattr(e.node, "lineno", None), site=site)
        unknown = [t for t in I.top_log[t0:] if t[0] != "recursion"]
        if unknown and not bad and not other:
            why, q, node = unknown[0]
            ctx.undecided_site("C18-a", site, f"operation outside the transfer table in {q}: {norm_src(node)[:80]} ({why})")
        elif not other and not bad:
            pp = outs.get("predict_proba")
            pr = outs.get("predict")
            okshape = (K.name == "Kauri" or (isinstance(pp, Arr) and pp.axes and pp.axes[0] == M)) and isinstance(pr, Arr) and pr.axes and pr.axes[0].name in ("M",)
            if okshape:
                nmap = sum(1 for e in evs if e.kind == "usage" and e.detail.get("axis") in ("M", "sel(M)"))
                ctx.ok("C18-a", site, f"outputs {outs}; {nmap} operations along M, all row-wise")
            else:
                ctx.undecided_site("C18-a", site, f"abstract outputs {outs}")
        # ---- c: labels_ and predict are the same argmax of the same function
        lab = obj.attrs.get("labels_")
        pr = outs.get("predict")
        sitec = f"{K.name}: labels_ vs predict"
        if isinstance(lab, Arr) and isinstance(pr, Arr) and lab.space == pr.space and lab.space is not None:
            ctx.ok("C18-c", sitec, f"both index the cluster axis {lab.space}")
        elif K.name == "Kauri" and isinstance(lab, Arr) and isinstance(pr, Arr):
            ctx.ok("C18-c", sitec, "labels_ = (Y@Z).argmax(0); predict routes through the tree (comparator agreement is C09-f)")
        else:
            ctx.violation("C18-c", K.unit.relpath, K.name, "labels_/predict", f"labels_ is {lab!r} but predict gives {pr!r}", line=K.node.lineno, site=sitec)

    # ---- b KernelRIM
    kr = pm.classes.get("KernelRIM")
    if kr is None:
        raise AnalysisError("anchor vanished: KernelRIM")
    ck = kr.methods.get("_compute_kernel")
    if ck is None:
        raise AnalysisError("anchor vanished: KernelRIM._compute_kernel")
    kcalls = []
    for n in ast.walk(ck):
        if isinstance(n, ast.Call) and (call_name(n) in ("self.base_kernel", "pairwise_kernels")):
            kcalls.append(n)
    okb = len(kcalls) >= 2 and all(len(c.args) >= 2 and norm_src(c.args[0]) == func_params(ck)[1] and norm_src(c.args[1]) == "self.input_data_" for c in kcalls)
    rets = [n for n in ast.walk(ck) if isinstance(n, ast.Return)]
    if okb and len(rets) == 1:
        ctx.ok("C18-b", "KernelRIM._compute_kernel: kernel(X, self.input_data_) on every branch")
    else:
        ctx.violation("C18-b", kr.unit.relpath, "KernelRIM._compute_kernel", norm_src(kcalls[0]) if kcalls else "kernel call",
                      "the kernel is not computed between the given points and the stored training data on every branch", line=ck.lineno)
    fit = kr.methods.get("fit")
    src = [norm_src(s) for s in fit.body]
    try:
        i_store = src.index("self.input_data_ = X")
        i_k = next(i for i, s in enumerate(src) if "self._compute_kernel(X)" in s)
        okf = i_store < i_k and any("super().fit(training_kernel, y)" in s for s in src)
    except (ValueError, StopIteration):
        okf = False
    if okf:
        ctx.ok("C18-b", "KernelRIM.fit: training data stored, then kernel computed through _compute_kernel and handed to the linear fit")
    else:
        ctx.violation("C18-b", kr.unit.relpath, "KernelRIM.fit", "input_data_/training_kernel", "fit does not store the training data before "
                      "computing the training kernel through _compute_kernel", line=fit.lineno)
    pp = kr.methods.get("predict_proba")
    psrc = [norm_src(s) for s in pp.body]
    if "kernel = self._compute_kernel(X)" in psrc and any(s.startswith("return self._infer(kernel") for s in psrc):
        ctx.ok("C18-b", "KernelRIM.predict_proba = _infer(_compute_kernel(X))")
    else:
        ctx.violation("C18-b", kr.unit.relpath, "KernelRIM.predict_proba", "return", "predict_proba does not go through _compute_kernel", line=pp.lineno)

    # ---- c: _infer independent of retain (shared with C04-c)
    from .c04 import wiring
    from ..report import Ctx
    sub = Ctx("C04", ctx.tier, quiet=True)
    sub.rule("C04-c", "")
    wiring(pm, sub)
    for o in sub.obligations:
        if "independent of retain" in o["site"] or "labels_ = argmax" in o["site"] or "predict = argmax" in o["site"]:
            if o["status"] == "ok":
                ctx.ok("C18-c", o["site"], o["note"])
    for f in sub.findings:
        if "retain" in f.message or "labels_" in f.message or "predict is not" in f.message:
            ctx.violation("C18-c", f.unit, f.func, f.stmt, f.message, line=f.line)


def controls(pm, tier):
    out = []

    def mut(mod, find, repl, rule, name, also=()):
        def apply(pm_):
            u = pm_.unit(mod)
            if find not in u.src:
                return None
            return {u.relpath: u.src.replace(find, repl, 1)}
        out.append({"name": name, "rule": rule, "apply": apply, "also": also})
    L, M, K = "gemclus.linear._linear_geminis", "gemclus.mlp._mlp_geminis", "gemclus.tree.kauri"
    mut(L, "        H = X @ self.W_ + self.b_\n        return softmax(H)", "        H = X @ self.W_ + self.b_\n        H = H - H.mean(0, keepdims=True)\n        return softmax(H)",
        "C18-a", "logits centred over the batch")
    mut(M, "        return softmax(H @ self.W2_ + self.b2_)", "        return softmax((H @ self.W2_ + self.b2_).T).T", "C18-a", "softmax normalised over samples")
    mut(L, "            kernel = pairwise_kernels(X, self.input_data_, metric=self.base_kernel, **_params)", "            kernel = pairwise_kernels(X, metric=self.base_kernel, **_params)",
        "C18-b", "KernelRIM kernel of the new points with themselves", also=("C18-a",))
    mut(K, "            X_left = X[:, self.features[node]] <= self.thresholds[node]", "            X_left = X[:, self.features[node]] <= np.median(X[:, self.features[node]])",
        "C18-a", "tree routes on the batch median")
    mut(L, "        return self._infer(kernel)", "        return self._infer(kernel[np.argsort(kernel[:, 0])])", "C18-a", "KernelRIM reorders its output rows")
    return out
