"""C19 - the printed KAURI tree is a faithful description of the fitted tree (structural clauses)."""
import ast

from ..pm import AnalysisError, norm_src, func_params
from ..flow import CFG, attr_chain
from ..astutil import call_name
from ..e6_algebra import compare_normal, to_rat, NotScalarArithmetic
from .c16 import print_guards

PROP = "C19"
EXPLANATION = (
    "(a) comparator / child agreement between print_kauri_tree and Tree.predict: the rule printed with `<=` is followed by the "
    "recursive print of children_left[node], the one printed with `>` by children_right[node]; feature and threshold are "
    "features[node] / thresholds[node]; leaves (children_left == -1, the test predict uses) print target[node]; the recursion "
    "starts at node 0; (b) feature names are subscripted by the feature index and the guard rejecting too few names bounds the "
    "largest used feature index (canonical form max(used) - len(names) >= 0 raises), where `used` are the non-None entries of "
    "tree_.features; (c) the isinstance / check_is_fitted guards and the names guard precede any output. Not decided: the "
    "textual round trip (formatting of floats, parsing).")
ADOPT = [("C18", ["C18-d"], "the printed thresholds are the float64 values: the rules send a point where predict sends it only if predict compares the same float64 values")]
ASSUMPTIONS = ["Tree.predict routes `feature <= threshold` to children_left (checked in C09-f)"]
K = "gemclus.tree.kauri"


def run(pm, ctx):
    u = pm.unit(K)
    f = u.func("print_kauri_tree")
    ctx.rule("C19-a", "the printed rules must send a point to the child that predict sends it to", floor=5)
    ctx.rule("C19-b", "names label the features actually used: the guard must bound the largest used index", floor=4)
    ctx.rule("C19-c", "unfitted / foreign objects and too few names are refused before anything is printed", floor=3)
    pn = [n for n in ast.walk(f) if isinstance(n, ast.FunctionDef) and n.name == "print_node"]
    if not pn:
        raise AnalysisError("anchor vanished: print_node")
    pn = pn[0]
    nid = func_params(pn)[0]
    body = pn.body
    src = [norm_src(s) for s in body]
    # ---- a
    defs = {}
    for s in body:
        if isinstance(s, ast.Assign) and isinstance(s.targets[0], ast.Name):
            defs[s.targets[0].id] = norm_src(s.value)
    tree = "kauri_tree.tree_"
    want = {"left_child": f"{tree}.children_left[{nid}]", "right_child": f"{tree}.children_right[{nid}]", "feature": f"{tree}.features[{nid}]",
            "threshold": f"{tree}.thresholds[{nid}]"}
    site = "print_node: node fields"
    missing = [k for k in want if k not in defs]
    bad = {k: defs.get(k) for k, v in want.items() if k in defs and defs.get(k) != v}
    if missing and not bad:
        ctx.unrecognised("C19-a", site, f"print_node does not bind {missing}")
    elif bad:
        ctx.violation("C19-a", u.relpath, "print_kauri_tree.print_node", str(bad), f"node fields are not read from the arrays predict uses at the same node: {bad}", line=pn.lineno, site=site)
    else:
        ctx.ok("C19-a", site, "children_left/right, features, thresholds at node_id")
    # sequence: print "<=" ; print_node(left) ; print ">" ; print_node(right)
    seq = []
    for s in body:
        if isinstance(s, ast.Expr) and isinstance(s.value, ast.Call):
            cn = call_name(s.value)
            if cn == "print":
                txt = norm_src(s.value)
                if "<=" in txt:
                    seq.append("le")
                elif ">" in txt and "<" not in txt:
                    seq.append("gt")
            elif cn == "print_node":
                seq.append("rec:" + norm_src(s.value.args[0]))
    site = "print_node: rule/child pairing"
    if seq == ["le", "rec:left_child", "gt", "rec:right_child"]:
        ctx.ok("C19-a", site, "`<=` rule then left child, `>` rule then right child")
    elif sorted(x for x in seq if not x.startswith("rec:")) != ["gt", "le"] or len([x for x in seq if x.startswith("rec:")]) != 2:
        ctx.unrecognised("C19-a", site, f"printing sequence {seq} is not two rule lines each followed by a recursive call")
    else:
        ctx.violation("C19-a", u.relpath, "print_kauri_tree.print_node", " ; ".join(seq), "the printed comparator does not lead to the child predict routes to "
                      "(expected: `<=` rule, left child, `>` rule, right child)", line=pn.lineno, site=site)
    # both rule lines show the same feature name and threshold
    rule_prints = [s for s in body if isinstance(s, ast.Expr) and isinstance(s.value, ast.Call) and call_name(s.value) == "print" and ("<=" in norm_src(s) or " > " in norm_src(s))]
    okr = len(rule_prints) == 2 and all("{feature_name}" in norm_src(s) and "{threshold}" in norm_src(s) for s in rule_prints)
    if okr:
        ctx.ok("C19-a", "print_node: both rules print the node's feature name and threshold")
    else:
        ctx.violation("C19-a", u.relpath, "print_kauri_tree.print_node", norm_src(rule_prints[0])[:120] if rule_prints else "rule", "a rule line does not show the node's feature and threshold",
                      line=pn.lineno, site="print_node: rule text")
    # leaf test and label
    leaf = [s for s in body if isinstance(s, ast.If) and norm_src(s.test) in ("left_child == -1", "-1 == left_child")]
    okl = bool(leaf) and any(f"{tree}.target[{nid}]" in norm_src(x) for x in leaf[0].body) and isinstance(leaf[0].body[-1], ast.Return) \
        and body.index(leaf[0]) < min(i for i, s in enumerate(body) if isinstance(s, ast.Expr) and isinstance(s.value, ast.Call) and call_name(s.value) == "print_node")
    if okl:
        ctx.ok("C19-a", "print_node: leaves (children_left == -1) print target[node] and stop")
    else:
        ctx.violation("C19-a", u.relpath, "print_kauri_tree.print_node", norm_src(leaf[0].test) if leaf else "leaf test", "leaves are not recognised like predict does "
                      "(children_left == -1) or do not print their cluster", line=pn.lineno, site="print_node: leaf")
    top = [s for s in f.body if isinstance(s, ast.Expr) and isinstance(s.value, ast.Call) and call_name(s.value) == "print_node"]
    if len(top) == 1 and norm_src(top[0].value.args[0]) == "0":
        ctx.ok("C19-a", "print_kauri_tree: printing starts at the root")
    else:
        ctx.violation("C19-a", u.relpath, "print_kauri_tree", "print_node(0)", "printing does not start at node 0", line=f.lineno, site="root")
    # ---- b
    fn = [s for s in ast.walk(pn) if isinstance(s, ast.Assign) and norm_src(s.targets[0]) == "feature_name" and "feature_names[" in norm_src(s.value)]
    site = "print_node: name lookup"
    if fn and norm_src(fn[0].value) == "feature_names[feature]":
        ctx.ok("C19-b", site, "feature_names[feature index]")
    else:
        ctx.violation("C19-b", u.relpath, "print_kauri_tree.print_node", norm_src(fn[0]) if fn else "feature_names[...]", "names are not looked up by the feature index", line=pn.lineno, site=site)
    # without names, a feature is shown by its column index
    dflt = [s_ for s_ in ast.walk(pn) if isinstance(s_, ast.Assign) and norm_src(s_.targets[0]) == "feature_name" and isinstance(s_.value, (ast.JoinedStr, ast.Call, ast.BinOp))
            and "feature_names[" not in norm_src(s_.value)]
    site = "print_node: default name shows the column index"
    if not dflt:
        ctx.unrecognised("C19-b", site, "no default feature name")
    else:
        used = {n.id for n in ast.walk(dflt[0].value) if isinstance(n, ast.Name)}
        if "feature" in used and not (used - {"feature", "str"}):
            ctx.ok("C19-b", site, norm_src(dflt[0].value)[:40])
        else:
            ctx.violation("C19-b", u.relpath, "print_kauri_tree.print_node", norm_src(dflt[0])[:120], f"the default name is built from {sorted(used)}, not from the feature index of the node",
                          line=dflt[0].lineno, site=site)
    # the names subscripted in print_node must be the argument itself: the guard bounds THAT sequence by column index
    rebinds = [s for s in ast.walk(f) if isinstance(s, (ast.Assign, ast.AugAssign)) and any(
        isinstance(t, ast.Name) and t.id == "feature_names" for t in (s.targets if isinstance(s, ast.Assign) else [s.target]))]
    site = "print_kauri_tree: names are indexed by column"
    if not rebinds:
        ctx.ok("C19-b", site, "feature_names is never re-bound")
    else:
        rb = rebinds[0]
        v = rb.value
        same = isinstance(v, ast.Call) and call_name(v) in ("list", "tuple", "np.asarray", "np.array") and len(v.args) == 1 and norm_src(v.args[0]) == "feature_names"
        if same:
            ctx.ok("C19-b", site, f"re-bound to a copy: {norm_src(rb)[:60]}")
        elif any(isinstance(n, ast.Name) and n.id in ("used_features",) for n in ast.walk(v)) or (isinstance(v, ast.Call) and call_name(v) in ("dict", "zip", "enumerate")):
            ctx.violation("C19-b", u.relpath, "print_kauri_tree", norm_src(rb)[:140], "feature_names is re-bound to a structure keyed by the features the tree uses: the i-th name is attached "
                          "to the i-th used feature instead of column i, so a tree that skips a column prints wrong names", line=rb.lineno, site=site)
        else:
            ctx.unrecognised("C19-b", site, f"feature_names re-bound: {norm_src(rb)[:60]}")
    guards = [s for s in ast.walk(f) if isinstance(s, ast.If) and "len(feature_names)" in norm_src(s.test) and s.body and isinstance(s.body[-1], ast.Raise)]
    site = "print_kauri_tree: names guard"
    okg = False
    why = "no raising guard on len(feature_names)"
    if guards:
        g = guards[0]
        used = [s for s in ast.walk(f) if isinstance(s, ast.Assign) and norm_src(s.targets[0]) == "used_features"]
        oku = used and norm_src(used[0].value) == "[x for x in kauri_tree.tree_.features if x is not None]"
        conj = g.test.values if isinstance(g.test, ast.BoolOp) and isinstance(g.test.op, ast.And) else [g.test]
        for c in conj:
            try:
                d, op = compare_normal(c)
            except NotScalarArithmetic:
                continue
            want1 = to_rat(ast.parse("max(used_features) - len(feature_names)", mode="eval").body)
            want2 = to_rat(ast.parse("max(used_features) + 1 - len(feature_names)", mode="eval").body)
            if (op == ">=" and d.equals(want1)) or (op == ">" and d.equals(want2)):
                okg = bool(oku)
                why = "" if oku else "used_features is not the list of non-None tree features"
        if not okg and not why:
            why = "the guard does not compare len(feature_names) with the largest used feature index"
        if not okg and why == "no raising guard on len(feature_names)":
            why = f"the guard `{norm_src(g.test)}` does not bound the largest used feature index (e.g. it counts distinct features)"
    if okg:
        ctx.ok("C19-b", site, "raises iff len(names) <= max(used feature index)")
    else:
        ctx.violation("C19-b", u.relpath, "print_kauri_tree", norm_src(guards[0].test) if guards else "names guard", why, line=(guards[0].lineno if guards else f.lineno), site=site)
    # ---- c
    print_guards(pm, ctx, "C19-c")
    first_out = next((s for s in f.body if isinstance(s, ast.Expr) and isinstance(s.value, ast.Call) and call_name(s.value) in ("print", "print_node")), None)
    gtop = next((s for s in f.body if isinstance(s, ast.If) and norm_src(s.test) == "feature_names is not None"), None)
    if guards and first_out is not None and gtop is not None and f.body.index(gtop) < f.body.index(first_out) and any(g is x for x in ast.walk(gtop) for g in guards):
        ctx.ok("C19-c", "print_kauri_tree: too few names are rejected before the first line is printed")
    else:
        ctx.violation("C19-c", u.relpath, "print_kauri_tree", "names guard", "the names guard does not run before printing starts", line=f.lineno, site="names guard order")


def controls(pm, tier):
    out = []

    def mut(find, repl, rule, name, also=()):
        def apply(pm_):
            u = pm_.unit(K)
            if find not in u.src:
                return None
            return {u.relpath: u.src.replace(find, repl, 1)}
        out.append({"name": name, "rule": rule, "apply": apply, "also": also})
    mut("        if len(used_features) > 0 and len(feature_names) <= max(used_features):", "        if len(feature_names) < len(np.unique(used_features)):", "C19-b", "guard counts distinct features")
    mut("        print_node(left_child)\n        print(\"| \" * current_depth, \"|=\", f\"{feature_name} > {threshold}\", sep=\"\")\n        print_node(right_child)",
        "        print_node(right_child)\n        print(\"| \" * current_depth, \"|=\", f\"{feature_name} > {threshold}\", sep=\"\")\n        print_node(left_child)", "C19-a", "children printed under the wrong rule")
    mut("        right_child = kauri_tree.tree_.children_right[node_id]", "        right_child = kauri_tree.tree_.children_left[node_id] + 1", "C19-a", "right child computed instead of read")
    mut("            feature_name = feature_names[feature]", "            feature_name = feature_names[node_id]", "C19-b", "names indexed by node id")
    mut("    check_is_fitted(kauri_tree)\n", "", "C19-c", "unfitted trees are printed")
    mut("            print(\"| \" * current_depth, f\"Cluster: {kauri_tree.tree_.target[node_id]}\")", "            print(\"| \" * current_depth, f\"Cluster: {kauri_tree.tree_.target[left_child]}\")", "C19-a", "leaf prints another node's target")
    mut("    def print_node(node_id):", "    if feature_names is not None:\n        feature_names = dict(zip(sorted(set(x for x in kauri_tree.tree_.features if x is not None)), feature_names))\n\n    def print_node(node_id):", "C19-b", "names re-keyed by used feature")
    mut('            feature_name = f"X[:, {feature}]"', '            feature_name = f"X[:, {node_id}]"', "C19-b", "default name shows the node id")
    return out
