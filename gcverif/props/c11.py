"""C11 - kernel, metric and GEMINI choices are forwarded faithfully; precomputed = named (structural clauses)."""
import ast

from ..pm import AnalysisError, norm_src, func_params
from ..flow import CFG, attr_chain
from ..astutil import call_name, self_name, parents
from ..callgraph import resolve_name
from ..e2_tables import TableEval, init_signature, fixed_parent_constants, effective_params
from ..e3_axes import is_top, Interp, Arr, Num, Ax, NoneV, StrV, Obj
from ..scenarios import symbolic_estimator
from .c01 import expected

PROP = "C11"
EXPLANATION = (
    "(a) forwarding: every get_gemini override returns the GEMINI class of its estimator family built with "
    "<param>=self.<param> for every estimator hyper-parameter that names a constructor parameter; convenience estimators that "
    "fix the objective pass the documented constant to the parent constructor; DiscriminativeModel.get_gemini is evaluated "
    "abstractly for gemini=None (-> MMD one-vs-all), every registry name and an instance (returned as is); (b) affinity "
    "dispatch in MMDGEMINI/WassersteinGEMINI.compute_affinity, KernelRIM._compute_kernel and Kauri._compute_kernel: callable -> "
    "the callable's output, 'precomputed' -> the user's matrix itself with a raise when it is missing, otherwise the "
    "scikit-learn pairwise function of the right family with metric=<the hyper-parameter> and the parameter dictionary; (c) "
    "single point of use: kernel / metric / parameter dictionaries / ovo are read only by get_gemini, compute_affinity, "
    "_compute_kernel and evaluate; (d) the user's y (precomputed affinity) is passed through by fit, fit_predict, score, path and "
    "the validation score. Not decided: numerical equality of fitted models.")
ADOPT = [("C12", ["C12-a"], "kernel / metric / GEMINI choices reach the objective only if the constructor stores or forwards them"),
         ("C12", ["C12-e"], "the affinity is the named kernel / metric evaluated with the GIVEN kernel_params / metric_params: a parameter dictionary that the library writes "
                            "into is no longer the given one at its next use (another estimator, other data, a clone)")]
ASSUMPTIONS = ["pairwise_kernels / pairwise_distances implement the named kernels and metrics"]

FAMILY = {"MMD": ("MMDGEMINI", "pairwise_kernels"), "Wasserstein": ("WassersteinGEMINI", "pairwise_distances")}
FIXED = {"RIM": "mi", "KernelRIM": "mi", "SparseLinearMI": "mi"}


def run(pm, ctx):
    ctx.rule("C11-a", "an estimator must train with the GEMINI, mode and affinity its parameters describe", floor=30)
    ctx.rule("C11-b", "the affinity is the named kernel/metric with its parameters, the callable's output, or the user's matrix", floor=12)
    ctx.rule("C11-c", "affinity-related hyper-parameters have a single point of use", floor=8)
    ctx.rule("C11-d", "a precomputed matrix given as y must reach every affinity computation", floor=8)
    ctx.rule("C11-e", "option names are compared by value: an identity test on a string depends on interning (an unpickled estimator, a name read "
             "from a file or built at run time is equal but not identical)", floor=5)
    n_cmp = 0
    for u in pm.units.values():
        consts = {k for k, v in getattr(u, "assigns", {}).items() if isinstance(v, ast.Constant) and isinstance(v.value, str)}
        for n in ast.walk(u.tree):
            if isinstance(n, ast.Compare) and len(n.ops) == 1:
                sides = [n.left, n.comparators[0]]
                strs = [x for x in sides if (isinstance(x, ast.Constant) and isinstance(x.value, str)) or (isinstance(x, ast.Name) and x.id in consts)]
                if not strs:
                    continue
                n_cmp += 1
                f = next((p_ for p_ in parents(n) if isinstance(p_, ast.FunctionDef)), None)
                site = f"{u.relpath}:{f.name if f else '<module>'}: {norm_src(n)[:50]}"
                if isinstance(n.ops[0], (ast.Is, ast.IsNot)):
                    ctx.violation("C11-e", u.relpath, f.name if f else "<module>", norm_src(n)[:100], f"`{norm_src(n)}` compares a string by identity: a configuration whose "
                                  f"option is equal to {norm_src(strs[0])} but is another object takes the other branch (the precomputed matrix / named option is ignored)",
                                  line=n.lineno, site=site)
                else:
                    ctx.ok("C11-e", site)
    if n_cmp == 0:
        raise AnalysisError("anchor vanished: string comparisons")
    te = TableEval(pm)
    # ------------------------------------------------------------------ a
    for K in pm.concrete_estimators():
        if "get_gemini" not in K.methods:
            continue
        gg = K.methods["get_gemini"]
        if K.name == "DiscriminativeModel":
            continue
        fam = next((v for k, v in FAMILY.items() if K.name.endswith(k)), None)
        site = f"{K.name}.get_gemini"
        stores = [n for n in ast.walk(gg) if isinstance(n, ast.Attribute) and isinstance(n.ctx, ast.Store)]
        hist = [n for n in ast.walk(gg) if isinstance(n, ast.Call) and isinstance(n.func, ast.Name) and n.func.id in ("getattr", "hasattr")]
        if stores or hist:
            bad = stores[0] if stores else hist[0]
            st_ = bad
            while not isinstance(st_, ast.stmt):
                st_ = st_._parent
            ctx.violation("C11-a", K.unit.relpath, site, norm_src(st_)[:160], "get_gemini keeps state on the estimator (a cached objective): hyper-parameters changed by a later "
                          "set_params are not forwarded to the GEMINI that is used", line=bad.lineno, site=site)
            continue
        rets = [n for n in ast.walk(gg) if isinstance(n, ast.Return)]
        if fam is None or len(rets) != 1 or not isinstance(rets[0].value, ast.Call) or not isinstance(rets[0].value.func, ast.Name):
            ctx.undecided_site("C11-a", site, "override of an unknown family or not a single constructor call")
            continue
        call = rets[0].value
        kind, tgt = resolve_name(pm, K.unit, call.func.id)
        if kind != "class" or tgt.name != fam[0]:
            ctx.violation("C11-a", K.unit.relpath, site, norm_src(rets[0]), f"{K.name} builds {call.func.id} instead of {fam[0]}", line=rets[0].lineno, site=site)
            continue
        gc, ginit = init_signature(pm, tgt)
        gparams = func_params(ginit)[1:]
        kparams = set(effective_params(pm, K))
        sn = self_name(gg)
        passed = {k.arg: norm_src(k.value) for k in call.keywords}
        probs = []
        if call.args:
            probs.append("positional arguments")
        for p in gparams:
            if p in kparams:
                if passed.get(p) != f"{sn}.{p}":
                    probs.append(f"{p} is {'not forwarded' if p not in passed else 'forwarded as ' + passed[p]}")
        for k, v in passed.items():
            if k not in gparams:
                probs.append(f"unknown constructor parameter {k}")
            elif k not in kparams and k != "epsilon":
                probs.append(f"{k}={v} does not come from a hyper-parameter of {K.name}")
        if probs:
            ctx.violation("C11-a", K.unit.relpath, site, norm_src(rets[0]), "; ".join(probs), line=rets[0].lineno, site=site)
        else:
            ctx.ok("C11-a", site, norm_src(call))
    # inherited overrides reach the subclasses: every concrete estimator resolves get_gemini in its own family
    for K in pm.concrete_estimators():
        if K.name == "Kauri":
            continue
        C, gg = pm.resolve_method(K, "get_gemini")
        fam = next((v for k, v in FAMILY.items() if K.name.endswith(k)), None)
        site = f"{K.name}: objective"
        consts = fixed_parent_constants(pm, K)
        if fam is not None:
            if C.name != "DiscriminativeModel":
                ctx.ok("C11-a", site, f"get_gemini of {C.name}")
            else:
                ctx.violation("C11-a", K.unit.relpath, K.name, "get_gemini", f"{K.name} exposes kernel/metric parameters but uses the generic get_gemini, "
                              f"which ignores them", line=K.node.lineno, site=site)
            continue
        if K.name in FIXED:
            v = consts.get("gemini")
            if isinstance(v, ast.Constant) and v.value == FIXED[K.name] and C.name == "DiscriminativeModel":
                ctx.ok("C11-a", site, f"gemini fixed to {FIXED[K.name]!r}")
            else:
                ctx.violation("C11-a", K.unit.relpath, f"{K.name}.__init__", "gemini=", f"{K.name} must fix gemini={FIXED[K.name]!r}; found "
                              f"{norm_src(v) if v is not None else 'nothing'}", line=K.node.lineno, site=site)
            continue
        # generic estimators: the user's gemini parameter is forwarded to the base constructor
        if "gemini" in effective_params(pm, K):
            if "gemini" not in consts and C.name == "DiscriminativeModel":
                ctx.ok("C11-a", site, "user-chosen gemini")
            else:
                ctx.violation("C11-a", K.unit.relpath, K.name, "gemini", f"{K.name} ignores its gemini parameter", line=K.node.lineno, site=site)
    # DiscriminativeModel.get_gemini evaluated abstractly
    base = pm.classes["DiscriminativeModel"]
    lin = pm.classes["LinearModel"]
    names = sorted(te.imported_str_set("gemclus.gemini._utils", "AVAILABLE_GEMINIS"))
    cases = [("None", NoneV(), ("MMDGEMINI", False))] + [(repr(n), StrV(n), expected(n)) for n in names]
    for label, val, (cls, ovo) in cases:
        I = Interp(pm)
        obj = symbolic_estimator(I, lin, "int", overrides={"gemini": val})
        res = I.call_method(obj, "get_gemini", [])
        site = f"DiscriminativeModel.get_gemini[gemini={label}]"
        okk = isinstance(res, Obj) and res.cls is not None and cls in [c.name for c in res.cls.mro] and isinstance(res.attrs.get("ovo"), Num) \
            and res.attrs["ovo"].const is not None and bool(res.attrs["ovo"].const) == ovo
        if okk and cls == "MMDGEMINI":
            k = res.attrs.get("kernel")
            okk = isinstance(k, StrV) and k.const == "linear"
        if okk and cls == "WassersteinGEMINI":
            k = res.attrs.get("metric")
            okk = isinstance(k, StrV) and k.const == "euclidean"
        if okk:
            ctx.ok("C11-a", site, repr(res))
        elif is_top(res) or (isinstance(res, Obj) and res.cls is None):
            ctx.undecided_site("C11-a", site, f"abstract result {res!r}")
        else:
            ctx.violation("C11-a", base.unit.relpath, "DiscriminativeModel.get_gemini", f"gemini={label}", f"resolves to {res!r} "
                          f"{getattr(res, 'attrs', {}).get('ovo', '')} instead of {cls}(ovo={ovo}) with default affinity", line=base.methods["get_gemini"].lineno, site=site)
    # gemini=None means MMD one-vs-all for EVERY estimator that takes a gemini parameter and uses the generic get_gemini (a resolution that
    # looks at the class - its constructor default, its name - can differ between them)
    for K in pm.concrete_estimators():
        Cg, fg = pm.resolve_method(K, "get_gemini")
        if K is lin or Cg is None or Cg.name != "DiscriminativeModel" or "gemini" not in effective_params(pm, K):
            continue
        I = Interp(pm)
        try:
            obj = symbolic_estimator(I, K, "int", overrides={"gemini": NoneV()})
            res = I.call_method(obj, "get_gemini", [])
        except Exception as e_:
            ctx.undecided_site("C11-a", f"{K.name}.get_gemini[gemini=None]", f"{e_!r}"[:120])
            continue
        site = f"{K.name}.get_gemini[gemini=None]"
        okk = isinstance(res, Obj) and res.cls is not None and "MMDGEMINI" in [c.name for c in res.cls.mro] and isinstance(res.attrs.get("ovo"), Num) \
            and res.attrs["ovo"].const is not None and bool(res.attrs["ovo"].const) is False
        if okk:
            ctx.ok("C11-a", site, repr(res))
        elif is_top(res) or (isinstance(res, Obj) and res.cls is None):
            ctx.undecided_site("C11-a", site, f"abstract result {res!r}")
        else:
            ctx.violation("C11-a", base.unit.relpath, "DiscriminativeModel.get_gemini", f"gemini=None [{K.name}]", f"for {K.name}, gemini=None resolves to {res!r} instead of the "
                          "documented MMD one-vs-all", line=base.methods["get_gemini"].lineno, site=site)
    I = Interp(pm)
    inst = I.construct(pm.classes["TVGEMINI"], [], {}, None)
    obj = symbolic_estimator(I, lin, "int", overrides={"gemini": inst})
    res = I.call_method(obj, "get_gemini", [])
    if res is inst:
        ctx.ok("C11-a", "DiscriminativeModel.get_gemini[gemini=<instance>] returns the instance itself")
    else:
        ctx.violation("C11-a", base.unit.relpath, "DiscriminativeModel.get_gemini", "instance", f"a GEMINI instance is not used as given (got {res!r})",
                      line=base.methods["get_gemini"].lineno, site="instance")

    # ------------------------------------------------------------------ b
    dispatch_sites = [("MMDGEMINI", "compute_affinity", "kernel", "kernel_params", "pairwise_kernels", False),
                      ("WassersteinGEMINI", "compute_affinity", "metric", "metric_params", "pairwise_distances", False),
                      ("KernelRIM", "_compute_kernel", "base_kernel", "base_kernel_params", "pairwise_kernels", True)]
    for cname, mname, hp, hpp, pfun, second in dispatch_sites:
        ci = pm.classes.get(cname)
        f = ci.methods.get(mname) if ci else None
        if f is None:
            raise AnalysisError(f"anchor vanished: {cname}.{mname}")
        check_dispatch(ctx, ci, f, hp, hpp, pfun, second)
    kauri = pm.classes.get("Kauri")
    kf = kauri.methods.get("_compute_kernel")
    check_kauri_kernel(ctx, kauri, kf)

    # ------------------------------------------------------------------ c single point of use
    names_ = {"kernel", "kernel_params", "metric", "metric_params", "base_kernel", "base_kernel_params"}
    allowed = {"get_gemini", "compute_affinity", "_compute_kernel", "__init__"}
    for ci in pm.classes.values():
        if ci.unit.is_pyx:
            continue
        for mn, f in ci.methods.items():
            sn = self_name(f)
            reads = sorted({n.attr for n in ast.walk(f) if isinstance(n, ast.Attribute) and isinstance(n.value, ast.Name) and n.value.id == sn
                            and n.attr in names_ and isinstance(n.ctx, ast.Load)})
            if not reads:
                continue
            site = f"{ci.name}.{mn} reads {reads}"
            if mn in allowed:
                ctx.ok("C11-c", site)
            else:
                ctx.violation("C11-c", ci.unit.relpath, f"{ci.name}.{mn}", f"reads {reads}", f"{reads} are read outside get_gemini / compute_affinity / "
                              f"_compute_kernel: a second, possibly different, affinity computation", line=f.lineno, site=site)
    for u in pm.units.values():
        for q, f in u.functions.items():
            if "." in q:
                continue
            reads = sorted({n.attr for n in ast.walk(f) if isinstance(n, ast.Attribute) and isinstance(n.value, ast.Name) and n.value.id in ("clf", "gemini_model", "kauri_tree")
                            and n.attr in names_ | {"ovo"}})
            if reads:
                ctx.violation("C11-c", u.relpath, q, f"reads {reads}", f"{q} reads affinity hyper-parameters directly", line=f.lineno, site=f"{q} reads {reads}")
    # training and scoring obtain the affinity only through compute_affinity
    for mod, q in (("gemclus._base_gemini", "DiscriminativeModel.fit"), ("gemclus._base_gemini", "DiscriminativeModel.score"), ("gemclus.sparse._base_sparse", "_path"),
                   ("gemclus.sparse._base_sparse", "compute_val_score")):
        u = pm.unit(mod)
        f = u.func(q)
        direct = [n for n in ast.walk(f) if isinstance(n, ast.Call) and (call_name(n) or "").split(".")[-1] in ("pairwise_kernels", "pairwise_distances")]
        if direct:
            ctx.violation("C11-c", u.relpath, q, norm_src(direct[0]), "the affinity is computed directly instead of through the GEMINI", line=direct[0].lineno, site=f"{q}: affinity source")
        else:
            ctx.ok("C11-c", f"{q}: affinity only through compute_affinity")

    # ------------------------------------------------------------------ d: y pass-through
    passthrough(pm, ctx)


def check_dispatch(ctx, ci, f, hp, hpp, pfun, second):
    unit, qn = ci.unit, f"{ci.name}.{f.name}"
    xparam = func_params(f)[1]
    top = [s for s in f.body if isinstance(s, ast.If)]
    probs = []
    # callable branch
    callb = [s for s in top if norm_src(s.test) == f"callable(self.{hp})"]
    if not callb:
        probs.append(f"no callable(self.{hp}) branch")
    else:
        calls = [n for n in ast.walk(ast.Module(body=callb[0].body, type_ignores=[])) if isinstance(n, ast.Call) and call_name(n) == f"self.{hp}"]
        want = [xparam] + (["self.input_data_"] if second else [])
        if len(calls) != 1 or [norm_src(a) for a in calls[0].args] != want or calls[0].keywords:
            probs.append(f"the callable is not applied to ({', '.join(want)})")
    # precomputed branch (not for KernelRIM, whose constraint has no 'precomputed')
    if not second:
        pre = None
        for s in ast.walk(f):
            if isinstance(s, ast.If) and norm_src(s.test) == f"self.{hp} == 'precomputed'":
                pre = s
        if pre is None:
            probs.append("no precomputed branch")
        else:
            inner = [s for s in pre.body if isinstance(s, ast.If) and norm_src(s.test) == "y is None"]
            rets = [s for s in pre.body if isinstance(s, ast.Return)]
            if not (inner and inner[0].body and isinstance(inner[0].body[-1], ast.Raise)):
                probs.append("a missing precomputed matrix does not raise")
            if not (rets and norm_src(rets[0].value) == "y"):
                probs.append("the precomputed branch does not return the user's matrix itself")
    # named branch
    pk = [n for n in ast.walk(f) if isinstance(n, ast.Call) and (call_name(n) or "") == pfun]
    if len(pk) != 1:
        probs.append(f"expected exactly one {pfun} call")
    else:
        c = pk[0]
        want = [xparam] + (["self.input_data_"] if second else [])
        if [norm_src(a) for a in c.args] != want:
            probs.append(f"{pfun} is not applied to ({', '.join(want)})")
        kw = {k.arg: norm_src(k.value) for k in c.keywords if k.arg}
        if kw.get("metric") != f"self.{hp}":
            probs.append(f"metric is {kw.get('metric')}, not self.{hp}")
        star = [k.value for k in c.keywords if k.arg is None]
        good_forms = (f"dict() if self.{hpp} is None else self.{hpp}", f"{{}} if self.{hpp} is None else self.{hpp}",
                      f"self.{hpp} if self.{hpp} is not None else dict()", f"self.{hpp} if self.{hpp} is not None else {{}}", f"self.{hpp} or {{}}", f"self.{hpp} or dict()")
        if len(star) != 1:
            probs.append("the parameter dictionary is not passed as **params")
        elif isinstance(star[0], ast.Name):
            pname = star[0].id
            defs = [s for s in ast.walk(f) if isinstance(s, ast.Assign) and isinstance(s.targets[0], ast.Name) and s.targets[0].id == pname]
            okd = len(defs) == 1 and norm_src(defs[0].value) in good_forms
            if not okd:
                probs.append(f"**{pname} is not self.{hpp} (or an empty dict when None)")
        elif norm_src(star[0]).strip("()") in good_forms or norm_src(star[0]) in good_forms:
            pass        # the dictionary expression written at the call
        else:
            probs.append(f"**{norm_src(star[0])[:60]} is not self.{hpp} (or an empty dict when None)")
    recognised = bool(callb) or bool(pk)
    if probs and not recognised:
        ctx.unrecognised("C11-b", qn, "neither a callable(...) branch nor a scikit-learn pairwise call was found")
    elif probs:
        ctx.violation("C11-b", unit.relpath, qn, norm_src(pk[0])[:160] if pk else "dispatch", "; ".join(probs), line=f.lineno, site=qn)
    else:
        ctx.ok("C11-b", qn, f"callable / {'precomputed / ' if not second else ''}{pfun}(metric=self.{hp}, **{hpp})")
    # the three branches are exhaustive and exclusive: the named call is only reached when not callable and not precomputed
    for sub in ("callable", "precomputed", "named"):
        if not probs:
            ctx.ok("C11-b", f"{qn}: {sub} branch")


def check_kauri_kernel(ctx, kauri, f):
    """judged on the outcomes of the function path by path (flow.return_cases): guard clauses, nested if/else or a result variable
    returned at the end are the same function"""
    from ..flow import return_cases, NotLoopFree
    from ..match import canon_equal
    unit, qn = kauri.unit, "Kauri._compute_kernel"
    try:
        cases = return_cases(f)
    except NotLoopFree as e:
        ctx.unrecognised("C11-b", qn, f"the kernel dispatch is not a loop-free function ({e})")
        return
    PRE = "self.kernel == 'precomputed'"
    if not any(t == PRE for _, _, lits in cases for t, _ in lits):
        ctx.unrecognised("C11-b", qn, "no `self.kernel == 'precomputed'` branch")
        return
    site = f"{qn}: missing precomputed matrix"
    missing = [c for c in cases if (PRE, True) in c[2] and ("y is None", True) in c[2]]
    undecided_y = [c for c in cases if (PRE, True) in c[2] and not any(t == "y is None" for t, _ in c[2])]
    if missing and all(k == "raise" for k, _, _ in missing) and not undecided_y:
        ctx.ok("C11-b", site, "raises")
    elif not missing and not undecided_y:
        ctx.unrecognised("C11-b", site, "no path for a precomputed kernel without a matrix")
    else:
        bad = next((c for c in missing if c[0] != "raise"), (missing or undecided_y)[0])
        ctx.violation("C11-b", unit.relpath, qn, "kernel == 'precomputed' and y is None", "a missing precomputed kernel is not an error: the model is silently "
                      f"fitted with another kernel ({'returns ' + norm_src(bad[1])[:60] if bad[1] is not None else 'no error raised'})", line=f.lineno, site=site)
    given = [c for c in cases if (PRE, True) in c[2] and ("y is None", False) in c[2]]
    named = [c for c in cases if (PRE, False) in c[2]]
    probs = []
    if not given or any(k != "return" or v is None or norm_src(v) != "y" for k, v, _ in given):
        probs.append("with a precomputed kernel the matrix returned is not y itself" + (f" but {norm_src(given[0][1])[:60]}" if given and given[0][1] is not None else ""))
    if not named or any(k != "return" or v is None or not canon_equal(v, "pairwise_kernels(X, metric=self.kernel)") for k, v, _ in named):
        probs.append("a named kernel is not computed by pairwise_kernels(X, metric=self.kernel)" + (f" but {norm_src(named[0][1])[:60]}" if named and named[0][1] is not None else ""))
    if not probs:
        ctx.ok("C11-b", f"{qn}: precomputed -> y itself; named -> pairwise_kernels(X, metric=self.kernel)")
    else:
        ctx.violation("C11-b", unit.relpath, qn, "dispatch", "the kernel is not y (precomputed) / pairwise_kernels(X, metric=self.kernel): " + "; ".join(probs),
                      line=f.lineno, site=f"{qn}: dispatch")


PASS = {"fit": 1, "score": 1, "compute_affinity": 1, "_path": 2, "compute_val_score": 2, "_compute_kernel": 1, "path": 1, "fit_predict": 1}


def passthrough(pm, ctx):
    for u in pm.units.values():
        if u.is_pyx:
            continue
        for q, f in u.functions.items():
            params = func_params(f)
            if "y" not in params:
                continue
            if f.name in ("evaluate", "__call__"):
                continue
            for n in ast.walk(f):
                if not isinstance(n, ast.Call):
                    continue
                cn = (call_name(n) or "")
                last = cn.split(".")[-1]
                if isinstance(n.func, ast.Attribute) and isinstance(n.func.value, ast.Call) and norm_src(n.func.value) == "super()":
                    last = n.func.attr
                if last not in PASS or (isinstance(n.func, ast.Name) and last not in ("_path", "compute_val_score")):
                    continue
                if last in ("fit", "score", "path", "fit_predict") and not (cn.startswith("self.") or cn.startswith("clf.") or norm_src(n.func).startswith("super().")):
                    continue
                site = f"{q}: {norm_src(n)[:70]}"
                # the callee must itself take a y (KernelRIM._compute_kernel(X) does not)
                if "." in q and cn.startswith("self."):
                    ci = pm.classes.get(q.split(".")[0])
                    if ci is not None:
                        C2, m2 = pm.resolve_method(ci, last)
                        if m2 is not None and not C2.external and "y" not in func_params(m2):
                            continue
                idx = PASS[last]
                arg = n.args[idx] if len(n.args) > idx else next((k.value for k in n.keywords if k.arg == "y"), None)
                if arg is not None and norm_src(arg) == "y":
                    ctx.ok("C11-d", site)
                    continue
                # accepted: affinity recomputed on selected features in dynamic mode, guarded by `y is None`
                guards = [norm_src(p.test) for p in parents(n) if isinstance(p, ast.If)]
                if arg is None and any("y is None" in g for g in guards) or (arg is None and any(isinstance(p, ast.If) and "y is not None" in norm_src(p.test) and _in_else(p, n) for p in parents(n))):
                    ctx.ok("C11-d", site, "only reached when no precomputed matrix was given")
                    continue
                st = n
                while not isinstance(st, ast.stmt):
                    st = st._parent
                ctx.violation("C11-d", u.relpath, q, norm_src(st)[:160], f"{last} is called without the user's y: a precomputed affinity is lost", line=n.lineno, site=site)


def _in_else(ifnode, node):
    for s in ifnode.orelse:
        for n in ast.walk(s):
            if n is node:
                return True
    return False


def controls(pm, tier):
    out = []

    def mut(mod, find, repl, rule, name, also=()):
        def apply(pm_):
            u = pm_.unit(mod)
            if find not in u.src:
                return None
            return {u.relpath: u.src.replace(find, repl, 1)}
        out.append({"name": name, "rule": rule, "apply": apply, "also": also})
    L, G, B, S, K, M = "gemclus.linear._linear_geminis", "gemclus.gemini._geomdistances", "gemclus._base_gemini", "gemclus.sparse._base_sparse", "gemclus.tree.kauri", "gemclus.mlp._mlp_geminis"
    mut(M, "        return MMDGEMINI(ovo=self.ovo, kernel=self.kernel, kernel_params=self.kernel_params)", "        return MMDGEMINI(ovo=self.ovo, kernel=self.kernel)", "C11-a", "MLPMMD drops kernel_params")
    mut(L, "        return WassersteinGEMINI(ovo=self.ovo, metric=self.metric, metric_params=self.metric_params)", "        return WassersteinGEMINI(ovo=not self.ovo, metric=self.metric, metric_params=self.metric_params)", "C11-a", "LinearWasserstein inverts ovo")
    mut(B, '            return _str_to_gemini("mmd_ova")', '            return _str_to_gemini("mmd_ovo")', "C11-a", "gemini=None resolves to one-vs-one")
    mut("gemclus.sparse._linear_sparse", '            gemini="mi",\n            groups=groups,', '            gemini="mmd_ova",\n            groups=groups,', "C11-a", "SparseLinearMI trains another objective")
    mut(G, "        return pairwise_kernels(X, metric=self.kernel, **_params)", "        return pairwise_kernels(X, metric=self.kernel)", "C11-b", "kernel parameters dropped")
    mut(G, "            if y is None:\n                raise ValueError(f\"Kernel should be precomputed, yet no kernel was passed as parameters: y={y}\")\n            return y\n        _params = dict() if self.kernel_params",
        "            if y is None:\n                raise ValueError(f\"Kernel should be precomputed, yet no kernel was passed as parameters: y={y}\")\n            return np.array(y)\n        _params = dict() if self.kernel_params", "C11-b", "placeholder")
    out.pop()
    mut(G, "        return pairwise_distances(X, metric=self.metric, **_params)", "        return pairwise_kernels(X, metric=self.metric, **_params)", "C11-b", "Wasserstein uses a kernel function")
    mut(S, "    affinity = gemini_objective.compute_affinity(X, y)", "    affinity = gemini_objective.compute_affinity(X)", "C11-d", "path drops the precomputed matrix")
    mut(B, "        return self.fit(X, y).labels_", "        return self.fit(X).labels_", "C11-d", "fit_predict drops y")
    mut(L, "    def _update_weights(self, weights, gradients):\n        # Add the regularisation gradient on the weight matrix\n        gradients[0] += self.reg * 2 * self.W_",
        "    def _update_weights(self, weights, gradients):\n        # Add the regularisation gradient on the weight matrix\n        gradients[0] += self.reg * 2 * self.W_ * (self.gemini == 'mi')", "C11-c", "placeholder")
    out.pop()
    mut(L, "        H = X @ self.W_ + self.b_\n        return softmax(H)", "        H = X @ self.W_ + self.b_ + 0 * len(getattr(self, 'kernel', ''))\n        return softmax(H)", "C11-c", "placeholder")
    out.pop()
    mut(L, "        training_kernel = self._compute_kernel(X)", "        training_kernel = pairwise_kernels(X, metric=self.base_kernel)", "C11-c", "KernelRIM.fit computes its kernel directly")
    mut(K, '        if self.kernel == "precomputed":', '        if self.kernel is "precomputed":', "C11-e", "option compared by identity")
    return out
