"""C13 - GEMINI scores obey their invariances and bounds: equivariance by construction, clip-before-use."""
import ast

from ..pm import AnalysisError, norm_src, func_params
from ..flow import CFG, ENTRY, attr_chain
from ..astutil import call_name
from ..e3_axes import Arr, Tup, Ax
from ..scenarios import evaluate_scenario, GEMINI_CLASSES, nonusage, dedup_events
from .c02 import evaluate_func, is_raw_mask, return_contexts, factors

PROP = "C13"
EXPLANATION = (
    "(a) permutation equivariance by construction: in the named-axis interpretation of every evaluate (6 classes x 2 modes, "
    "with gradient) each operation along the sample axis N and the cluster axis K is a map, a symmetric reduction "
    "(sum/mean/max/norm/contraction) or a pairing (diag/eye/pairwise on two equally named axes); positional operations "
    "(constant index, non-trivial slice, sort, argsort, cumsum, comparison of an index with a constant, arg-reduction used "
    "as a value) are violations. Loops over range(K) with the loop variable as a scalar index are maps; the unordered pair "
    "loop of the Wasserstein one-vs-one score is accepted through the mirror rule C02-e. (b) clip-before-use: the raw "
    "predictions are only used in the clip mask, as the first argument of np.clip(., eps, 1-eps) and through .shape; every "
    "sqrt argument is either np.maximum(., 0) or free of subtractions; every denominator that derives from such a floored "
    "square root carries an explicit zero mask (+ eye / + (delta == 0)). (c) an empty cluster has all its predictions clipped, "
    "hence a zero gradient by the mask rule (re-checked here). Not decided: non-negativity, zero at independence, log K, unit bounds.")
ASSUMPTIONS = ["epsilon is validated in (0,1), so clipped predictions and their means are strictly positive",
               "numpy shape semantics of gcverif/e3_numpy.py"]
ADOPT = [("C01", ["C01-e"], "non-negativity, the unit bounds of total variation and Hellinger and log K for a balanced hard partition are properties of the documented distances: they hold if the score is that distance"),
         ("C02", ["C02-f"], "zero distances (identical or empty clusters) must not produce inf/NaN gradients"),
         ("C17", ["C17-c"], "finite on the closed simplex")]


def run(pm, ctx):
    _EXACT_CACHE.clear()
    _EXACT_CACHE["pm"] = pm
    ctx.rule("C13-a", "a score that treats some sample or cluster position specially is not invariant under reordering", floor=12)
    ctx.rule("C13-b", "finite scores and gradients on the closed simplex require clipping before log, division and sqrt", floor=14)
    ctx.rule("C13-c", "an empty cluster must receive zero gradient", floor=12)
    ctx.rule("C13-d", "a score is a function of (predictions, affinity) alone: no value computed in one call is reused in another call "
             "on the evidence of object identity or shape", floor=12)
    for cname in GEMINI_CLASSES:
        ci, f = evaluate_func(pm, cname)
        for meth in ("evaluate", "compute_affinity"):
            fm = None
            for C in ci.mro:
                if meth in C.methods:
                    fm = (C, C.methods[meth])
                    break
            if fm is None:
                continue
            C, g_ = fm
            site = f"{cname}.{meth}: stateless"
            selfn = func_params(g_)[0]
            stores = [n for n in ast.walk(g_) if isinstance(n, ast.Attribute) and isinstance(n.ctx, ast.Store) and isinstance(n.value, ast.Name) and n.value.id == selfn]
            if not stores:
                ctx.ok("C13-d", site, "no attribute of the objective is written")
                continue
            # which condition decides whether the stored value is reused?
            keyed = []
            for t in [x for x in ast.walk(g_) if isinstance(x, (ast.If, ast.IfExp))]:
                for c in ast.walk(t.test):
                    if isinstance(c, ast.Compare) and any(isinstance(o, (ast.Is, ast.IsNot)) for o in c.ops) and \
                            any(isinstance(x, ast.Name) and x.id == selfn for x in ast.walk(c)) and \
                            not any(isinstance(x, ast.Constant) and x.value is None for x in [c.left] + c.comparators):
                        keyed.append(("identity", c))
                    if isinstance(c, ast.Compare) and any(isinstance(x, ast.Attribute) and x.attr == "shape" for x in ast.walk(c)) and \
                            any(isinstance(x, ast.Attribute) and isinstance(x.value, ast.Name) and x.value.id == selfn for x in ast.walk(c)):
                        keyed.append(("shape", c))
                    if isinstance(c, ast.Call) and (call_name(c) or "") == "id":
                        keyed.append(("identity", c))
            if keyed:
                kind, c = keyed[0]
                ctx.violation("C13-d", C.unit.relpath, f"{C.name}.{meth}", norm_src(stores[0]._parent)[:140] if hasattr(stores[0], "_parent") else norm_src(stores[0]),
                              f"a value derived from the arguments is cached on the objective and reused when `{norm_src(c)}` ({kind} of the argument, not its contents): "
                              f"the same array object with new contents (a reordered or refilled buffer) is scored with the stale value, so the score is no longer "
                              f"a function of its arguments", line=stores[0].lineno, site=site)
            else:
                ctx.unrecognised("C13-d", site, f"`{norm_src(stores[0])}` is written during the evaluation")
    ctx.rule("C13-f", "the optimal-transport solver is run to optimality: an iteration budget below POT's default makes it stop on an order-dependent "
             "feasible basis for large n, so score and gradient are no longer permuted with the samples", floor=2)
    solver_budget(pm, ctx)
    ctx.rule("C13-e", "a score vanishes (chi-square family: equals its offset 1/2) whenever the predictions do not depend on the sample: the score "
             "term with y[n,k] replaced by c[k] (sum_k c[k] = 1) normalises to that constant", floor=12)
    from ..e8_gemini import check_independence
    from ..e8_index import Unsupported as E8Unsupported, Poly as E8Poly
    for cname in GEMINI_CLASSES:
        ci, f = evaluate_func(pm, cname)
        for ovo in (False, True):
            site = f"{cname}.evaluate[ovo={ovo}]: value at sample-independent predictions"
            want = E8Poly.const(1) * E8Poly.const(0.5) if cname == "ChiSquareGEMINI" else E8Poly()
            if cname == "ChiSquareGEMINI":
                from fractions import Fraction
                want = E8Poly.const(Fraction(1, 2))
            try:
                got = check_independence(pm, cname, ovo)
            except E8Unsupported as e:
                ctx.unrecognised("C13-e", site, f"outside the translated numpy subset: {e}")
                continue
            if got == want:
                ctx.ok("C13-e", site, f"= {want!r}")
            elif got.is_const():
                ctx.violation("C13-e", ci.unit.relpath, f"{cname}.evaluate", f"score[ovo={ovo}] at y[n,k]=c[k]", f"when the predictions do not depend on the sample the "
                              f"score is {got!r}, not {want!r}", line=f.lineno, site=site)
            else:
                ctx.violation("C13-e", ci.unit.relpath, f"{cname}.evaluate", f"score[ovo={ovo}] at y[n,k]=c[k]", f"when the predictions do not depend on the sample the "
                              f"score does not reduce to the constant {want!r}: it is {repr(got)[:160]}", line=f.lineno, site=site)
    for cname in GEMINI_CLASSES:
        ci, f = evaluate_func(pm, cname)
        unit, qn = ci.unit, f"{cname}.evaluate"
        for ovo in (False, True):
            I, g, res = evaluate_scenario(pm, cname, ovo, True)
            site = f"{qn}[ovo={ovo}]"
            pos = [e for e in I.events if e.kind == "usage" and e.detail.get("axis") in ("N", "K") and e.detail.get("cls") in ("positional", "argreduce")
                   and e.func.endswith("evaluate")]
            unknown = [t for t in I.top_log if t[1].endswith("evaluate")]
            if pos:
                seen = set()
                for e in pos:
                    st = e.stmt()
                    k = norm_src(st) if st is not None else "?"
                    if k in seen:
                        continue
                    seen.add(k)
                    ctx.violation("C13-a", unit.relpath, qn, k[:160], f"'{e.detail.get('op')}' is a positional operation along axis {e.detail.get('axis')}: "
                                  f"the score is not invariant under a reordering of that axis", line=getattr(e.node, "lineno", None), site=site)
            elif unknown:
                ctx.undecided_site("C13-a", site, f"operation outside the transfer table: {norm_src(unknown[0][2])[:80]}")
            else:
                n = sum(1 for e in I.events if e.kind == "usage" and e.detail.get("axis") in ("N", "K"))
                ctx.ok("C13-a", site, f"{n} operations along N/K, all map / symmetric-reduce / pairing")
        clip_rules(ctx, unit, qn, f)
        mask_rules(ctx, unit, qn, f)



def _pot_default(name="emd2", kw="numItermax"):
    """default of a keyword of ot.<name>, read from the installed POT sources (parsed, not imported)"""
    import glob
    import os
    for fn in glob.glob("/venv/lib/python3*/site-packages/ot/lp/*.py"):
        try:
            t = ast.parse(open(fn).read())
        except (OSError, SyntaxError):
            continue
        for n in ast.walk(t):
            if isinstance(n, ast.FunctionDef) and n.name == name:
                args = n.args.args
                defs = n.args.defaults
                for a, d in zip(args[len(args) - len(defs):], defs):
                    if a.arg == kw and isinstance(d, ast.Constant):
                        return d.value
                for a, d in zip(n.args.kwonlyargs, n.args.kw_defaults):
                    if a.arg == kw and isinstance(d, ast.Constant):
                        return d.value
    return None


def solver_budget(pm, ctx):
    default = _pot_default()
    n_calls = 0
    for u in pm.units.values():
        for c in ast.walk(u.tree):
            if isinstance(c, ast.Call) and (call_name(c) or "") in ("ot.emd2", "ot.emd", "emd2", "emd"):
                n_calls += 1
                f = next((p_ for p_ in _parents_of(c) if isinstance(p_, ast.FunctionDef)), None)
                site = f"{u.relpath}:{f.name if f else '?'}: {norm_src(c)[:50]}"
                it = next((k.value for k in c.keywords if k.arg == "numItermax"), None)
                if it is None:
                    ctx.ok("C13-f", site, f"default budget ({default})")
                elif default is None:
                    ctx.unrecognised("C13-f", site, "POT's default numItermax could not be read from the installed sources")
                elif isinstance(it, ast.Constant) and isinstance(it.value, (int, float)):
                    if it.value >= default:
                        ctx.ok("C13-f", site, f"numItermax={it.value} >= {default}")
                    else:
                        ctx.violation("C13-f", u.relpath, f.name if f else "?", norm_src(c)[:140], f"numItermax={it.value} is below POT's default {default}: the network simplex "
                                      f"stops early on problems with about a thousand samples and returns a feasible, order-dependent plan", line=c.lineno, site=site)
                else:
                    ctx.unrecognised("C13-f", site, f"numItermax={norm_src(it)}")
    if n_calls == 0:
        raise AnalysisError("anchor vanished: calls of ot.emd2")


def _parents_of(n):
    n = getattr(n, "_parent", None)
    while n is not None:
        yield n
        n = getattr(n, "_parent", None)


def _floored(e):
    """e is np.maximum(., 0), or a sum / product of such terms with non-negative constants (epsilon)"""
    if isinstance(e, ast.Call) and (call_name(e) or "").split(".")[-1] == "maximum" and len(e.args) == 2 and norm_src(e.args[1]) in ("0", "0.0"):
        return True
    if isinstance(e, ast.BinOp) and isinstance(e.op, (ast.Add, ast.Mult)):
        sides = [e.left, e.right]
        nonneg = [isinstance(x, ast.Constant) and isinstance(x.value, (int, float)) and x.value >= 0 or norm_src(x) == "self.epsilon" for x in sides]
        fl = [_floored(x) for x in sides]
        return all(a or b for a, b in zip(nonneg, fl)) and any(fl)
    return False

def clip_rules(ctx, unit, qn, f):
    cfg = CFG(f)
    rd = cfg.reaching()
    param = func_params(f)[1]
    # ---- raw prediction uses
    bad = []
    n_uses = 0
    clipped = False
    for st in cfg.nodes:
        if rd[st].get(param) != frozenset([ENTRY]) and ENTRY not in rd[st].get(param, frozenset()):
            continue
        for e in cfg.header_exprs(st):
            for n in ast.walk(e):
                if isinstance(n, ast.Name) and n.id == param and isinstance(n.ctx, ast.Load):
                    n_uses += 1
                    par = n._parent
                    ok = False
                    if isinstance(par, ast.Compare):
                        ok = True   # mask comparison
                    elif isinstance(par, ast.Attribute) and par.attr == "shape":
                        ok = True
                    elif isinstance(par, ast.Call) and (call_name(par) or "").split(".")[-1] == "clip" and par.args and par.args[0] is n:
                        lo = par.args[1] if len(par.args) > 1 else next((k.value for k in par.keywords if k.arg == "a_min"), None)
                        hi = par.args[2] if len(par.args) > 2 else next((k.value for k in par.keywords if k.arg == "a_max"), None)
                        if lo is not None and hi is not None and norm_src(lo) == "self.epsilon" and norm_src(hi).replace("(", "").replace(")", "") == "1 - self.epsilon":
                            ok = True
                            clipped = True
                    if not ok:
                        bad.append((st, n))
    site = f"{qn}: raw predictions"
    if bad:
        st, n = bad[0]
        ctx.violation("C13-b", unit.relpath, qn, norm_src(st)[:160], f"the unclipped predictions {param} are used outside the clip mask / np.clip / .shape",
                      line=st.lineno, site=site)
    elif not clipped:
        ctx.violation("C13-b", unit.relpath, qn, "np.clip", f"{param} is never clipped to [epsilon, 1-epsilon]", line=f.lineno, site=site)
    else:
        ctx.ok("C13-b", site, f"{n_uses} uses of the raw parameter: mask, clip, shape only")
    # ---- sqrt arguments
    sq = [n for n in ast.walk(f) if isinstance(n, ast.Call) and (call_name(n) or "").split(".")[-1] == "sqrt"]
    floored_vars = set()
    for c in sq:
        st = _stmt(c)
        arg = c.args[0]
        site = f"{qn}: sqrt({norm_src(arg)[:40]})"
        try:
            from ..match import resolve_expr as _re
            rarg = _re(cfg, _cfg_stmt(cfg, c), arg)
        except Exception:
            rarg = arg
        if _floored(arg) or _floored(rarg):
            ctx.ok("C13-b", site, "floored at 0")
            if isinstance(st, ast.Assign) and isinstance(st.targets[0], ast.Name):
                floored_vars.add(st.targets[0].id)
            continue
        # otherwise the argument must be built without subtraction from clipped quantities
        node_st = _cfg_stmt(cfg, c)
        names = [n.id for n in ast.walk(arg) if isinstance(n, ast.Name)]
        stmts, inputs = cfg.backward_slice(node_st, names)
        sub = any(_is_subtraction(n) for x in [arg] + [s for s in stmts if not _is_clip_or_mask(s)] for n in ast.walk(x))
        raw = param in inputs and not all(_is_clip_or_mask(s) or param not in cfg.uses(s) for s in stmts)
        if sub or raw:
            ctx.violation("C13-b", unit.relpath, qn, norm_src(st)[:160], "sqrt of a quantity that may be negative (a difference) without np.maximum(., 0)",
                          line=st.lineno, site=site)
        else:
            ctx.ok("C13-b", site, "sums/products of clipped probabilities")
    # ---- denominators derived from a floored sqrt need a zero mask
    for n in ast.walk(f):
        den = None
        if isinstance(n, ast.BinOp) and isinstance(n.op, ast.Div):
            den = n.right
        elif isinstance(n, ast.AugAssign) and isinstance(n.op, ast.Div):
            den = n.value
        if den is None:
            continue
        dnames = {x.id for x in ast.walk(den) if isinstance(x, ast.Name)}
        if not (dnames & floored_vars):
            continue
        st = _stmt(n)
        site = f"{qn}: / {norm_src(den)[:40]}"
        core = den
        while isinstance(core, ast.Call) and isinstance(core.func, ast.Attribute) and core.func.attr in ("reshape",):
            core = core.func.value
        guarded = False
        if isinstance(core, ast.BinOp) and isinstance(core.op, ast.Add):
            from ..match import resolve_expr
            for side in (core.left, core.right):
                s_ = norm_src(side)
                try:
                    r_ = norm_src(resolve_expr(cfg, _cfg_stmt(cfg, n), side))     # a mask held in a local, whatever its name
                except Exception:
                    r_ = s_
                if s_.startswith("np.eye(") or s_.endswith("_mask") or "== 0" in s_ or r_.startswith("np.eye(") or "== 0" in r_:
                    guarded = True
        if isinstance(core, ast.Call) and (call_name(core) or "").split(".")[-1] == "where" and len(core.args) == 3 and "== 0" in norm_src(core.args[0]) \
                and norm_src(core.args[1]) not in ("0", "0.0"):
            guarded = True          # np.where(d == 0, c, d) with c != 0
        if guarded:
            ctx.ok("C13-b", site, "zero distances masked before the division")
        else:
            ctx.violation("C13-b", unit.relpath, qn, norm_src(st)[:160], f"division by {norm_src(den)}, which is a floored square root and can be exactly 0, "
                          f"without a zero mask", line=st.lineno, site=site)
    # ---- log arguments are clipped quantities
    for c in [n for n in ast.walk(f) if isinstance(n, ast.Call) and (call_name(n) or "").split(".")[-1] in ("log", "log2", "log10")]:
        st = _cfg_stmt(cfg, c)
        names = [n.id for n in ast.walk(c.args[0]) if isinstance(n, ast.Name)]
        stmts, inputs = cfg.backward_slice(st, names)
        site = f"{qn}: log({norm_src(c.args[0])[:30]})"
        raw = [s for s in stmts if param in cfg.uses(s) and not _is_clip_or_mask(s)]
        sub = any(_is_subtraction(x) for s in stmts if not _is_clip_or_mask(s) for x in ast.walk(s)) or any(_is_subtraction(x) for x in ast.walk(c.args[0]))
        if raw or sub or (param in names):
            ctx.violation("C13-b", unit.relpath, qn, norm_src(_stmt(c))[:160], "log of a quantity that is not a clipped probability or a mean of them", line=c.lineno, site=site)
        else:
            ctx.ok("C13-b", site, "clipped probability / mean of clipped probabilities")


def _is_subtraction(n):
    """a genuine subtraction / negation of a non-constant (a literal such as -1 in reshape((-1, 1)) is not one)"""
    if isinstance(n, ast.BinOp) and isinstance(n.op, ast.Sub):
        return True
    if isinstance(n, ast.AugAssign) and isinstance(n.op, ast.Sub):
        return True
    if isinstance(n, ast.UnaryOp) and isinstance(n.op, ast.USub) and not isinstance(n.operand, ast.Constant):
        return True
    return False


def _is_clip_or_mask(s):
    src = norm_src(s)
    return "np.clip(" in src or ("self.epsilon" in src and "&" in src)


def mask_rules(ctx, unit, qn, f):
    cfg = CFG(f)
    rd = cfg.reaching()
    rets = return_contexts(cfg, f)
    for st, grad, ovo in rets:
        if grad is not True or not (isinstance(st.value, ast.Tuple) and len(st.value.elts) == 2):
            continue
        for ov in ((False, True) if ovo is None else (ovo,)):
            site = f"{qn}[ovo={ov}]: empty cluster"
            gexpr = st.value.elts[1]
            ok, why = False, "no mask factor"
            for fac in factors(gexpr):
                if isinstance(fac, ast.Name):
                    defs = rd[st].get(fac.id, frozenset())
                    cands = [d for d in defs if d is not ENTRY and isinstance(d, ast.Assign)]
                    if len(cands) == len(defs) == 1 and isinstance(cands[0].value, ast.BinOp) and isinstance(cands[0].value.op, ast.BitAnd):
                        ok, why = is_raw_mask(cands[0].value, cfg, cands[0], func_params(f)[1])
                        if ok:
                            break
            if ok:
                ctx.ok("C13-c", site, "gradient multiplied by the raw clip mask: columns clipped at epsilon get 0")
            elif _exact(unit) is not None and (qn.split(".")[0], ov) in _exact(unit):
                ctx.ok("C13-c", site, "mask factor not identified syntactically; the term comparison of C02-g proves gradient = clip mask * derivative")
            else:
                ctx.violation("C13-c", unit.relpath, qn, norm_src(st)[:160], f"the gradient of a clipped (empty) cluster is not zeroed: {why}", line=st.lineno, site=site)


_EXACT_CACHE = {}


def _exact(unit):
    """lazily computed set of (class, ovo) whose gradient is proved exact (only needed when the syntactic mask rule fails)"""
    pm_ = _EXACT_CACHE.get("pm")
    if pm_ is None:
        return None
    if "set" not in _EXACT_CACHE:
        from .c02 import exact_gradients
        _EXACT_CACHE["set"] = exact_gradients(pm_)
    return _EXACT_CACHE["set"]


def _stmt(n):
    while not isinstance(n, ast.stmt):
        n = n._parent
    return n


def _cfg_stmt(cfg, node):
    n = node
    while n is not None and n not in cfg.succ:
        n = getattr(n, "_parent", None)
    return n


def controls(pm, tier):
    out = []

    def mut(mod, find, repl, rule, name, also=()):
        def apply(pm_):
            u = pm_.unit(mod)
            if find not in u.src:
                return None
            return {u.relpath: u.src.replace(find, repl, 1)}
        out.append({"name": name, "rule": rule, "apply": apply, "also": also})
    F, G = "gemclus.gemini._fdivergences", "gemclus.gemini._geomdistances"
    mut(F, "        cluster_entropy = np.sum(p_y * log_p_y)", "        cluster_entropy = np.sum(p_y * log_p_y) + 0 * p_y[0]", "C13-a", "KL reads the first cluster specially")
    mut(G, "            mmd_ova_value = np.dot(pi, delta).squeeze()", "            mmd_ova_value = np.dot(pi, np.sort(delta)).squeeze()", "C13-a", "MMD sorts the per-cluster distances")
    mut(F, "        log_p_y_x = np.log(p_y_x)", "        log_p_y_x = np.log(y_pred)", "C13-b", "KL takes the log of unclipped predictions")
    mut(G, "            delta = np.sqrt(np.maximum(a + c - 2 * b, 0))", "            delta = np.sqrt(a + c - 2 * b)", "C13-b", "MMD OvA sqrt without floor")
    mut(G, "                gradient = tau_grad / (delta + delta_mask).reshape((1, -1))", "                gradient = tau_grad / delta.reshape((1, -1))", "C13-b", "MMD OvA divides by unmasked zero distances")
    mut(F, "            return hellinger_gemini, gradients * clip_mask", "            return hellinger_gemini, gradients", "C13-c", "Hellinger gradient unmasked")
    mut(F, "            mutual_information = prediction_entropy - cluster_entropy", "            mutual_information = prediction_entropy - 0.5 * cluster_entropy", "C13-e",
        "KL does not vanish at independence")
    mut(G, "            delta = np.sqrt(np.maximum(a + c - 2 * b, 0))", "            delta = np.sqrt(np.maximum(a + c - b, 0))", "C13-e", "MMD does not vanish at independence")
    mut(F, "        hellinger_gemini = 1 - np.mean(estimates, axis=0)", "        hellinger_gemini = 2 - np.mean(estimates, axis=0)", "C13-e", "Hellinger offset")
    mut(G, "        N, K = y_pred.shape\n", "        N, K = y_pred.shape\n        if affinity is not getattr(self, '_last', None):\n            self._last, self._cost = affinity, np.ascontiguousarray(affinity)\n        affinity = self._cost\n",
        "C13-d", "cost matrix memoised on object identity")
    mut(G, "ot.emd2(wy[k1], wy[k2], affinity, log=True)", "ot.emd2(wy[k1], wy[k2], affinity, log=True, numItermax=10000)", "C13-f", "solver budget a tenth of the default")
    return out
