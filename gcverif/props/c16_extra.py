"""C16 (continued): the decision table of check_groups, the integrity of the constraint_params wrapper, and the classes of
malformed training data each fit entry rejects."""
import ast

from ..pm import AnalysisError, norm_src, func_params
from ..flow import CFG, attr_chain
from ..astutil import call_name

# ------------------------------------------------------------------------------------------------ check_groups
# abstract states of a (non-None) group list over n features:
#   lo_bad / hi_bad : some index < 0 / >= n          rel : len(all) ? n        dup : an index occurs twice
#   cover : set(all) == set(range(n))
# consistency: out-of-range => not cover;  in range: rel '<' => not cover; rel '=' => (cover <=> not dup); rel '>' => dup
GROUP_STATES = []
for _rel, _dup, _cover, _ex in (("<", False, False, "[[0]]"), ("<", True, False, "[[0], [0]]"), ("=", False, True, "[[0, 1], [2]]"),
                                ("=", True, False, "[[0, 0], [1]]"), (">", True, True, "[[0, 1], [1, 2]]"), (">", True, False, "[[0, 0], [0, 0]]")):
    GROUP_STATES.append({"lo_bad": False, "hi_bad": False, "rel": _rel, "dup": _dup, "cover": _cover, "example": _ex + " with 3 features"})
for _lo, _hi, _tag in ((True, False, "-1"), (False, True, "3"), (True, True, "-1, 3")):
    for _rel, _dup, _ex in (("<", False, f"[[{_tag}]]"), ("=", False, f"[[{_tag}, 0, 1][:3]] (3 indices)"), (">", True, f"[[{_tag}, 0, 0, 1]]"),
                            ("<", True, f"[[{_tag.split(',')[0]}, {_tag.split(',')[0]}]]")):
        GROUP_STATES.append({"lo_bad": _lo, "hi_bad": _hi, "rel": _rel, "dup": _dup, "cover": False, "example": _ex + " with 3 features"})


def _flat_index_var(f, groups):
    """name of the variable holding the concatenation of all groups"""
    for n in ast.walk(f):
        if isinstance(n, ast.For) and isinstance(n.iter, ast.Name) and n.iter.id == groups and isinstance(n.target, ast.Name):
            g = n.target.id
            for s in ast.walk(n):
                if isinstance(s, ast.Call) and isinstance(s.func, ast.Attribute) and s.func.attr == "extend" and isinstance(s.func.value, ast.Name) \
                        and s.args and norm_src(s.args[0]) in (g, f"list({g})", f"tuple({g})"):
                    return s.func.value.id
                if isinstance(s, ast.AugAssign) and isinstance(s.op, ast.Add) and isinstance(s.target, ast.Name) \
                        and norm_src(s.value) in (g, f"list({g})"):
                    return s.target.id
        if isinstance(n, ast.Assign) and isinstance(n.targets[0], ast.Name) and isinstance(n.value, ast.ListComp) and len(n.value.generators) == 2:
            g0, g1 = n.value.generators
            if isinstance(g0.iter, ast.Name) and g0.iter.id == groups and norm_src(g1.iter) in (norm_src(g0.target), f"list({norm_src(g0.target)})", f"tuple({norm_src(g0.target)})") \
                    and norm_src(n.value.elt) == norm_src(g1.target) and not g0.ifs and not g1.ifs:
                return n.targets[0].id
    return None


class _Quant:
    def __init__(self, L, n):
        self.L, self.n = L, n

    def of(self, e):
        s = norm_src(e)
        L, n = self.L, self.n
        table = {f"len({L})": "LEN", f"len(set({L}))": "SETLEN", n: "N", f"min({L})": "MIN", f"max({L})": "MAX", f"set({L})": "SET",
                 f"set(range({n}))": "RANGESET", f"set(range(0, {n}))": "RANGESET", "0": "ZERO", f"{n} - 1": "N-1", f"sorted({L})": "SORTED",
                 f"list(range({n}))": "RANGELIST", f"len(np.unique({L}))": "SETLEN", "-1": "MINUS1",
                 f"min(set({L}))": "MIN", f"max(set({L}))": "MAX", f"min(sorted({L}))": "MIN", f"max(sorted({L}))": "MAX"}
        return table.get(s)


_FLIP = {"<": ">", "<=": ">=", ">": "<", ">=": "<=", "==": "==", "!=": "!="}
_OPS = {ast.Lt: "<", ast.LtE: "<=", ast.Gt: ">", ast.GtE: ">=", ast.Eq: "==", ast.NotEq: "!="}


def _rel_holds(rel, op):
    """does `a op b` hold when a rel b (rel in '<','=','>')"""
    return {"<": rel == "<", "<=": rel in "<=", ">": rel == ">", ">=": rel in ">=", "==": rel == "=", "!=": rel != "="}[op]


def _acond(e, st, q, groups):
    """abstract truth value of a condition in state st: True / False / None (not determined)"""
    if isinstance(e, ast.BoolOp):
        vals = [_acond(v, st, q, groups) for v in e.values]
        if isinstance(e.op, ast.Or):
            if any(v is True for v in vals):
                return True
            return False if all(v is False for v in vals) else None
        if any(v is False for v in vals):
            return False
        return True if all(v is True for v in vals) else None
    if isinstance(e, ast.UnaryOp) and isinstance(e.op, ast.Not):
        v = _acond(e.operand, st, q, groups)
        return None if v is None else not v
    if not (isinstance(e, ast.Compare) and len(e.ops) == 1):
        return None
    if isinstance(e.ops[0], (ast.Is, ast.IsNot)) and norm_src(e.left) == groups and norm_src(e.comparators[0]) == "None":
        return isinstance(e.ops[0], ast.IsNot)
    op = _OPS.get(type(e.ops[0]))
    a, b = q.of(e.left), q.of(e.comparators[0])
    if op is None or a is None or b is None:
        return None
    inrange = not (st["lo_bad"] or st["hi_bad"])
    for (x, y, o) in ((a, b, op), (b, a, _FLIP[op])):
        if (x, y) == ("MIN", "ZERO"):
            # min < 0  <=> lo_bad ; min >= 0 <=> not lo_bad
            return {"<": st["lo_bad"], ">=": not st["lo_bad"]}.get(o)
        if (x, y) == ("MIN", "MINUS1"):
            return {"<=": st["lo_bad"], ">": not st["lo_bad"]}.get(o)
        if (x, y) == ("MAX", "N"):
            return {">=": st["hi_bad"], "<": not st["hi_bad"]}.get(o)
        if (x, y) == ("MAX", "N-1"):
            return {">": st["hi_bad"], "<=": not st["hi_bad"]}.get(o)
        if (x, y) == ("LEN", "N"):
            return _rel_holds(st["rel"], o)
        if (x, y) == ("SET", "RANGESET"):
            return {"==": st["cover"], "!=": not st["cover"]}.get(o)
        if (x, y) == ("SETLEN", "LEN"):
            return {"==": not st["dup"], "!=": st["dup"], "<": st["dup"], ">=": not st["dup"], "<=": True, ">": False}.get(o)
        if (x, y) == ("SETLEN", "N") and inrange:
            return {"==": st["cover"], "!=": not st["cover"], "<": not st["cover"], ">=": st["cover"], "<=": True, ">": False}.get(o)
        if (x, y) == ("SORTED", "RANGELIST"):
            v = st["rel"] == "=" and st["cover"]
            return {"==": v, "!=": not v}.get(o)
    return None


def _exec(stmts, st, q, groups):
    for s in stmts:
        if isinstance(s, ast.Raise):
            return "raise", s
        if isinstance(s, ast.Return):
            return "return", s
        if isinstance(s, ast.If):
            v = _acond(s.test, st, q, groups)
            if v is None:
                return "unknown", s
            r = _exec(s.body if v else s.orelse, st, q, groups)
            if r[0] != "fall":
                return r
        elif isinstance(s, (ast.Try, ast.With, ast.While, ast.Match if hasattr(ast, "Match") else ast.While)):
            return "unknown", s
        elif isinstance(s, ast.Assert):
            v = _acond(s.test, st, q, groups)
            if v is None:
                return "unknown", s
            if v is False:
                return "raise", s
    return "fall", None


def check_groups_table(pm, ctx, rid):
    su = pm.unit("gemclus.sparse._base_sparse")
    f = su.func("check_groups")
    params = func_params(f)
    site = "check_groups: decision table over all abstract group lists"
    if len(params) < 2:
        ctx.unrecognised(rid, site, "check_groups does not take (groups, n_features)")
        return
    groups, n = params[0], params[1]
    L = _flat_index_var(f, groups)
    if L is None:
        ctx.unrecognised(rid, site, "no variable holds the concatenation of all groups")
        return
    q = _Quant(L, n)
    n_ok = 0
    for st in GROUP_STATES:
        out, where = _exec(f.body, st, q, groups)
        want = "raise" if (st["lo_bad"] or st["hi_bad"] or st["dup"]) else "return"
        tag = ("out-of-range " if (st["lo_bad"] or st["hi_bad"]) else "") + ("overlapping " if st["dup"] else "") + \
              ("covering" if st["cover"] else "partial") + f", {('fewer indices than', 'as many indices as', 'more indices than')['<=>'.index(st['rel'])]} features"
        if out == "unknown":
            ctx.unrecognised(rid, site, f"condition `{norm_src(where.test) if hasattr(where, 'test') else norm_src(where)[:60]}` is not decided by "
                             f"(range, count, duplicates, coverage)")
            return
        if out == "fall":
            out = "return"
        if out != want:
            what = "accepted" if want == "raise" else "rejected"
            ctx.violation(rid, su.relpath, "check_groups", norm_src(where)[:100] if where is not None else "end of function",
                          f"groups that are {tag} (e.g. {st['example']}) are {what}: feature groups must be rejected exactly when they "
                          f"overlap or leave the feature range", line=getattr(where, "lineno", f.lineno), site=site + f" [{tag}]")
        else:
            n_ok += 1
            ctx.ok(rid, site + f" [{tag}]", want)


def check_groups_completion(pm, ctx, rid):
    """a partial group list is completed with ONE SINGLETON group per feature that no group mentions"""
    su = pm.unit("gemclus.sparse._base_sparse")
    f = su.func("check_groups")
    params = func_params(f)
    groups, n = params[0], params[1]
    L = _flat_index_var(f, groups)
    site = "check_groups: completion of a partial group list"
    comps = [c for c in ast.walk(f) if isinstance(c, ast.ListComp) and any(isinstance(g.iter, ast.Call) and call_name(g.iter) == "range" for g in c.generators)
             and any(g.ifs for g in c.generators)]
    if L is None or not comps:
        ctx.unrecognised(rid, site, "no comprehension over range(n_features) filtered by membership")
        return
    # the outermost comprehension that is added to `groups`
    adds = [b for b in ast.walk(f) if isinstance(b, ast.BinOp) and isinstance(b.op, ast.Add) and norm_src(b.left) == groups]
    augs = [b for b in ast.walk(f) if isinstance(b, ast.AugAssign) and isinstance(b.op, ast.Add) and norm_src(b.target) == groups]
    rhs = adds[0].right if adds else (augs[0].value if augs else None)
    if rhs is None:
        ctx.unrecognised(rid, site, "the completion is not `groups + [...]`")
        return
    if isinstance(rhs, ast.Name):
        # a temporary bound once to the completion list
        ds_ = [s_ for s_ in ast.walk(f) if isinstance(s_, ast.Assign) and len(s_.targets) == 1 and isinstance(s_.targets[0], ast.Name) and s_.targets[0].id == rhs.id]
        if len(ds_) == 1:
            rhs = ds_[0].value
    if isinstance(rhs, ast.ListComp):
        c = rhs
        g = c.generators[0]
        v = norm_src(g.target)
        ok_iter = isinstance(g.iter, ast.Call) and call_name(g.iter) == "range" and norm_src(g.iter.args[-1]) == n
        ok_if = len(g.ifs) == 1 and norm_src(g.ifs[0]).replace(" ", "") in (f"{v}notin{L}", f"not{v}in{L}", f"{v}notinset({L})")
        if isinstance(c.elt, ast.List) and len(c.elt.elts) == 1 and norm_src(c.elt.elts[0]) == v and ok_iter and ok_if:
            ctx.ok(rid, site, "one singleton per uncovered feature")
        elif ok_iter and ok_if:
            ctx.violation(rid, su.relpath, "check_groups", norm_src(rhs)[:120], f"the completion adds `{norm_src(c.elt)}` per uncovered feature, not the singleton [{v}]", line=rhs.lineno, site=site)
        else:
            ctx.unrecognised(rid, site, f"completion `{norm_src(rhs)[:80]}`")
    elif isinstance(rhs, ast.List) and len(rhs.elts) == 1 and isinstance(rhs.elts[0], ast.ListComp):
        ctx.violation(rid, su.relpath, "check_groups", norm_src(rhs)[:120], "all features that no group mentions are put into ONE additional group: they are then kept or "
                      "discarded as a block instead of one by one", line=rhs.lineno, site=site)
    else:
        ctx.unrecognised(rid, site, f"completion `{norm_src(rhs)[:80]}`")


# ------------------------------------------------------------------------------------------------ constraint_params wrapper
def _ignored_name_test(w, test, pname):
    """`pname in L` where the local list L only holds the names of the *args / **kwargs parameters of the decorated function and "self" """
    if not (isinstance(test, ast.Compare) and len(test.ops) == 1 and isinstance(test.ops[0], ast.In) and norm_src(test.left) == pname and isinstance(test.comparators[0], ast.Name)):
        return False
    lst = test.comparators[0].id

    def part_ok(e):
        if isinstance(e, ast.BinOp) and isinstance(e.op, ast.Add):
            return part_ok(e.left) and part_ok(e.right)
        if isinstance(e, (ast.List, ast.Tuple)):
            return all(isinstance(x, ast.Constant) and x.value == "self" for x in e.elts)
        if isinstance(e, ast.ListComp) and len(e.generators) == 1:
            g = e.generators[0]
            if not (isinstance(g.target, ast.Name) and norm_src(e.elt) == f"{g.target.id}.name" and norm_src(g.iter).endswith(".parameters.values()") and len(g.ifs) == 1):
                return False
            c = g.ifs[0]
            if isinstance(c, ast.Compare) and len(c.ops) == 1 and isinstance(c.ops[0], ast.In) and norm_src(c.left) == f"{g.target.id}.kind" \
                    and isinstance(c.comparators[0], (ast.Tuple, ast.List, ast.Set)):
                return all(norm_src(x).split(".")[-1] in ("VAR_POSITIONAL", "VAR_KEYWORD") for x in c.comparators[0].elts)
            return False
        return False
    defs = [n for n in ast.walk(w) if isinstance(n, (ast.Assign, ast.AugAssign)) and any(isinstance(t, ast.Name) and t.id == lst for t in (n.targets if isinstance(n, ast.Assign) else [n.target]))]
    if not defs:
        return False
    for d in defs:
        if isinstance(d, ast.AugAssign) and not isinstance(d.op, ast.Add):
            return False
        if not part_ok(d.value):
            return False
    return True


def decorator_integrity(pm, ctx, rid):
    u = pm.unit("gemclus._constraints")
    outer = u.func("constraint_params")
    wr = [n for n in ast.walk(outer) if isinstance(n, ast.FunctionDef) and n.name != "constraint_params"
          and any(isinstance(c, ast.Call) and norm_src(c.func) in ("func", "function", "fn", "f") and any(isinstance(a, ast.Starred) for a in c.args) for c in ast.walk(n))
          and not any(isinstance(m, ast.FunctionDef) and m is not n for m in ast.walk(n))]
    site = "constraint_params.wrapper"
    if not wr:
        ctx.unrecognised(rid, site, "no inner wrapper forwarding *args/**kwargs to the decorated function")
        return
    w = wr[0]
    table = func_params(outer)[0]
    cfg = CFG(w)
    loops = [n for n in ast.walk(w) if isinstance(n, ast.For) and any(isinstance(r, ast.Raise) for r in ast.walk(n))]
    if not loops:
        ctx.violation(rid, u.relpath, "constraint_params.wrapper", "validation loop", "the wrapper never raises: arguments are not validated", line=w.lineno, site=site)
        return
    loop = loops[0]
    where = f"{u.relpath}"
    # (1) the call of the decorated function comes after the loop
    calls = [s for s in cfg.nodes if isinstance(s, (ast.Return, ast.Expr, ast.Assign)) and any(
        isinstance(c, ast.Call) and any(isinstance(a, ast.Starred) for a in c.args) and norm_src(c.func) != "function_signature.bind"
        and not norm_src(c.func).endswith(".bind") for c in ast.walk(s))]
    if calls and all(cfg.dominates(loop, c) for c in calls):
        ctx.ok(rid, site + ": validation dominates the call of the decorated function")
    else:
        ctx.violation(rid, where, "constraint_params.wrapper", norm_src(calls[0])[:80] if calls else "call", "the decorated function can be called before "
                      "its arguments were validated", line=w.lineno, site=site + ": order")
    # (2) loop body: the only ways out of an iteration are falling through, `continue` under `name not in table`, and raise
    pname = None
    if isinstance(loop.target, ast.Tuple) and len(loop.target.elts) == 2 and all(isinstance(e, ast.Name) for e in loop.target.elts):
        pname, pval = loop.target.elts[0].id, loop.target.elts[1].id
    elif isinstance(loop.target, ast.Name):
        pname, pval = loop.target.id, None
    else:
        ctx.unrecognised(rid, site, "loop target of the validation loop")
        return
    escapes = []

    def walk(stmts, conds, inner):
        for s in stmts:
            if isinstance(s, (ast.Break, ast.Return)) and not inner:
                escapes.append((s, list(conds)))
            elif isinstance(s, ast.Continue) and not inner:
                ok = len(conds) == 1 and conds[0][1] is True and norm_src(conds[0][0]) in (f"{pname} not in {table}", f"not {pname} in {table}") \
                    or len(conds) == 1 and conds[0][1] is False and norm_src(conds[0][0]) == f"{pname} in {table}"
                if not ok and len(conds) == 1 and conds[0][1] is True and isinstance(conds[0][0], ast.BoolOp) and isinstance(conds[0][0].op, ast.Or):
                    # a disjunction of reasons to skip: no entry in the table, or a name of the ignore list (*args / **kwargs / self)
                    ok = all(norm_src(v) in (f"{pname} not in {table}", f"not {pname} in {table}") or _ignored_name_test(w, v, pname) for v in conds[0][0].values)
                if not ok:
                    escapes.append((s, list(conds)))
            elif isinstance(s, ast.If):
                walk(s.body, conds + [(s.test, True)], inner)
                walk(s.orelse, conds + [(s.test, False)], inner)
            elif isinstance(s, (ast.For, ast.While)):
                walk(s.body, conds, True)
                walk(s.orelse, conds, inner)
            elif isinstance(s, (ast.With, ast.Try)):
                for b in (getattr(s, "body", []), getattr(s, "orelse", []), getattr(s, "finalbody", [])):
                    walk(b, conds, inner)
    walk(loop.body, [], False)
    if escapes:
        s, conds = escapes[0]
        ctx.violation(rid, where, "constraint_params.wrapper", norm_src(s), f"`{norm_src(s)}` (under {[norm_src(c[0]) for c in conds]}) leaves the validation of "
                      "the remaining arguments: every argument with an entry in the table must be validated", line=s.lineno, site=site + ": every argument visited")
    else:
        ctx.ok(rid, site + ": every argument with a table entry is visited (no break/return; continue only for names without entry)")
    # (3) the raise is controlled by `not satisfied`, where satisfied is the disjunction of is_satisfied_by(value)
    raises = [r for r in ast.walk(loop) if isinstance(r, ast.Raise)]
    sat_calls = [c for c in ast.walk(loop) if isinstance(c, ast.Call) and isinstance(c.func, ast.Attribute) and c.func.attr == "is_satisfied_by"]
    # a verdict memoised on the value is shared by all values that compare equal: True, 1 and 1.0 hash to the same key although `bool`, `Integral` and
    # `Real` constraints tell them apart - an out-of-domain value inherits "valid" (or the reverse) from an earlier call
    cu = pm.unit("gemclus._constraints")
    memo = [fn for fn in ast.walk(cu.tree) if isinstance(fn, ast.FunctionDef) and any(str(norm_src(d.func if isinstance(d, ast.Call) else d)).split(".")[-1] in ("lru_cache", "cache") for d in fn.decorator_list)
            and any(isinstance(c, ast.Call) and isinstance(c.func, ast.Attribute) and c.func.attr == "is_satisfied_by" for c in ast.walk(fn))]
    if memo:
        ctx.violation(rid, where, "constraint_params", norm_src(memo[0].decorator_list[0]), f"the validation verdict of `{memo[0].name}` is memoised on the argument value: values that "
                      "compare equal but have different types (True / 1 / 1.0) share one verdict, so an out-of-domain value can be accepted (or an in-domain one "
                      "rejected) depending on earlier calls", line=memo[0].lineno, site=site + ": verdict computed per call")
        return
    if not sat_calls:
        ctx.unrecognised(rid, site, "no is_satisfied_by call in the validation loop")
        return
    if pval is not None and not all(len(c.args) == 1 and norm_src(c.args[0]) == pval for c in sat_calls):
        ctx.violation(rid, where, "constraint_params.wrapper", norm_src(sat_calls[0]), "constraints are not evaluated on the value of the argument being validated",
                      line=sat_calls[0].lineno, site=site + ": value")
    flag = None
    for s in ast.walk(loop):
        if isinstance(s, ast.Assign) and isinstance(s.targets[0], ast.Name) and any(c in list(ast.walk(s.value)) for c in sat_calls):
            flag = s.targets[0].id
            flag_assign = s
    r = raises[0]
    conds = [(h.test, br) for h, br in cfg.control_conditions(r) if isinstance(h, ast.If)]
    inner = [c for c in conds if any(isinstance(n, ast.Name) and n.id == flag for n in ast.walk(c[0]))] if flag else []
    guard_ok = None
    if flag and len(inner) == 1:
        t, br = inner[0]
        s = norm_src(t)
        neg = s in (f"not {flag}", f"{flag} is False", f"{flag} == False")
        pos = s == flag
        if (neg and br is True) or (pos and br is False):
            guard_ok = True
        elif isinstance(t, ast.BoolOp) and isinstance(t.op, ast.And) and br is True and any(norm_src(v) == f"not {flag}" for v in t.values):
            guard_ok = False
            why = f"the error is only raised when `{s}`: an unsatisfied constraint alone does not raise"
        elif (neg and br is False) or (pos and br is True):
            guard_ok = False
            why = "the error is raised when the constraint IS satisfied"
    if flag is None:
        # no flag: the raise is directly under `not any(<c>.is_satisfied_by(value) for <c> in ...)`
        for t, br in conds:
            tt = t.operand if isinstance(t, ast.UnaryOp) and isinstance(t.op, ast.Not) else None
            direct = tt if tt is not None else t
            if isinstance(direct, ast.Call) and isinstance(direct.func, ast.Name) and direct.func.id == "any" and len(direct.args) == 1 \
                    and isinstance(direct.args[0], (ast.GeneratorExp, ast.ListComp)) and any(c_ is direct.args[0].elt for c_ in sat_calls):
                inner = [(t, br)]
                if (tt is not None and br is True) or (tt is None and br is False):
                    guard_ok = True
                else:
                    guard_ok = False
                    why = "the error is raised when the constraint IS satisfied"
    extra = [c for c in conds if c not in inner and not (norm_src(c[0]) in (f"{pname} not in {table}",) and c[1] is False)
             and not (norm_src(c[0]) == f"{pname} in {table}" and c[1] is True)]
    if guard_ok is True and extra:
        guard_ok = False
        why = f"the error additionally requires {[norm_src(c[0]) for c in extra]}"
    if guard_ok is None:
        ctx.unrecognised(rid, site, "the guard of the raise is not `not <satisfied flag>`")
    elif guard_ok and flag is None:
        ctx.ok(rid, site + ": InvalidParameterError raised iff no alternative constraint is satisfied")
    elif guard_ok:
        # the flag must be a disjunction accumulated over all constraints: `flag = flag or c.is_satisfied_by(v)` / any(...)
        v = flag_assign.value
        acc = (isinstance(v, ast.BoolOp) and isinstance(v.op, ast.Or)) or (isinstance(v, ast.Call) and call_name(v) == "any") \
            or (isinstance(v, ast.Call) and v in sat_calls)
        if isinstance(v, ast.BoolOp) and isinstance(v.op, ast.And):
            ctx.violation(rid, where, "constraint_params.wrapper", norm_src(flag_assign), "a value must satisfy ALL alternative constraints to be accepted: "
                          "alternatives are a disjunction", line=flag_assign.lineno, site=site + ": disjunction")
        elif acc:
            ctx.ok(rid, site + ": InvalidParameterError raised iff no alternative constraint is satisfied")
        else:
            ctx.unrecognised(rid, site, f"accumulation of the satisfied flag: {norm_src(flag_assign)}")
    else:
        ctx.violation(rid, where, "constraint_params.wrapper", norm_src(inner[0][0]) if inner else "raise guard", why, line=r.lineno, site=site + ": raise guard")
    # (4) the error type is in the ValueError/TypeError family
    exc = r.exc
    cn = call_name(exc) if isinstance(exc, ast.Call) else (norm_src(exc) if exc is not None else None)
    fam = {"ValueError", "TypeError", "InvalidParameterError"}
    cls = next((n for n in u.tree.body if isinstance(n, ast.ClassDef) and n.name == cn), None)
    bases = {norm_src(b) for b in cls.bases} if cls is not None else set()
    if cn in ("ValueError", "TypeError") or (cls is not None and bases & {"ValueError", "TypeError"}):
        ctx.ok(rid, site + f": raises {cn} (ValueError/TypeError family)")
    else:
        ctx.violation(rid, where, "constraint_params.wrapper", norm_src(r)[:80], f"{cn} is not a ValueError/TypeError", line=r.lineno, site=site + ": error type")


# ------------------------------------------------------------------------------------------------ malformed data classes
VALIDATORS = ("check_array", "validate_data", "check_X_y")


def _kw(call, name):
    for k in call.keywords:
        if k.arg == name:
            return k.value
    return None


def _const(e):
    return e.value if isinstance(e, ast.Constant) else "?"


def _rejects(call):
    """classes of malformed input this validation call rejects, from its keywords (scikit-learn defaults otherwise)"""
    out = set()
    d = _kw(call, "dtype")
    if d is None or _const(d) == "numeric":
        out.add("non-numeric")
    s = _kw(call, "accept_sparse")
    if s is None or _const(s) is False:
        out.add("sparse")
    fin = [x for x in (_kw(call, "ensure_all_finite"), _kw(call, "force_all_finite")) if x is not None]
    if all(_const(x) is True for x in fin):
        out.add("non-finite")
    e2 = _kw(call, "ensure_2d")
    nd = _kw(call, "allow_nd")
    if (e2 is None or _const(e2) is True) and (nd is None or _const(nd) is False):
        out.add("not two-dimensional")
    ms = _kw(call, "ensure_min_samples")
    if ms is None or not (isinstance(ms, ast.Constant) and isinstance(ms.value, int) and ms.value < 1):
        out.add("empty")
    return out


def data_classes(pm, ctx, rid):
    entries = (("gemclus._base_gemini", "DiscriminativeModel.fit"), ("gemclus.tree.kauri", "Kauri.fit"))
    for mod, qn in entries:
        u = pm.unit(mod)
        f = u.func(qn)
        cfg = CFG(f)
        X = func_params(f)[1]
        calls = []
        for st in cfg.nodes:
            for e in cfg.header_exprs(st):
                for c in ast.walk(e):
                    if isinstance(c, ast.Call) and (call_name(c) or "").split(".")[-1] in VALIDATORS:
                        args = [norm_src(a) for a in c.args]
                        if X in args:
                            calls.append((st, c))
        site = f"{qn}: malformed training data"
        if not calls:
            ctx.unrecognised(rid, site, f"no check_array / validate_data call on {X} in {qn}")
            continue
        # the first training-relevant statement: anything using X that is not a validation call
        uses = [st for st in cfg.nodes if X in cfg.uses(st) and not any(st is c[0] for c in calls)]
        covered = {}
        for st, c in calls:
            if all(cfg.dominates(st, us) for us in uses):
                for k in _rejects(c):
                    covered.setdefault(k, norm_src(c)[:70])
        for k in ("non-numeric", "sparse", "non-finite", "not two-dimensional", "empty"):
            if k in covered:
                ctx.ok(rid, f"{site}: {k} rejected", covered[k])
            else:
                ctx.violation(rid, u.relpath, qn, f"validation of {X}", f"{k} training data is not rejected by any of the validation calls that precede training "
                              f"({[norm_src(c)[:60] for _, c in calls]})", line=calls[0][0].lineno, site=f"{site}: {k}")
