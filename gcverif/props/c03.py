"""C03 - every training update follows the true gradient of the regularised objective (structural core)."""
import ast

from ..pm import AnalysisError, norm_src, func_params
from ..flow import CFG, ENTRY, attr_chain
from ..astutil import replace_node, call_name, self_name
from ..callgraph import resolve_call, reachable_methods
from ..e3_axes import Arr, Lst, Num, Ax, is_top, Interp
from ..scenarios import fit_scenario, nonusage, dedup_events, symbolic_estimator, data_XY
from ..e5_mirror import mirror_equal

PROP = "C03"
EXPLANATION = (
    "Rules on every _compute_grads / _update_weights definition and on both training loops: (a) provenance - the backward "
    "slice of each returned gradient contains no other returned gradient; (b) chain rule - the gradient of a parameter that "
    "reaches the output only through a product with weight w must read w, and the activation retained by _infer when a "
    "ReLU lies in between; (c) the named-axis interpretation of fit gives, at every optimiser.update_params call of every "
    "estimator and batch mode, as many gradients as weights with identical axes, penalties added at the index of the weight "
    "they penalise; (d) inside _compute_grads no per-sample value (an array carrying the sample axis) is computed through a "
    "reduction over the sample axis; (e) loop protocol infer -> gemini(return_grad=True) -> _compute_grads -> "
    "_update_weights on the same batch variables, in fit and in the sparse path, and the mlcl wrapper forwards its "
    "arguments unchanged; (f) the optimiser holds _get_weights()'s own arrays and no weight attribute is re-bound in code "
    "reachable from a training step; (g) formal sign: each returned gradient is an odd number of negations away from the "
    "GEMINI gradient and penalties are added. Not decided: the Jacobian formulas themselves, scalar factors.")
ADOPT = [("C10", ["C10-e"], "the constraint gradient is added to the rows of the batch being back-propagated only if the recorded indices are those of that batch")]
ASSUMPTIONS = ["numpy shape semantics of gcverif/e3_numpy.py", "optimiser.update_params(params, grads) updates params[i] in place with grads[i]",
               "Douglas cut-point gradients are outside the shape domain (Kronecker reshape) and excluded from (c) and (g)"]

GRAD_DEFS = ["LinearModel", "KernelRIM", "MLPModel", "SparseMLPModel", "CategoricalModel", "Douglas"]


def grads_defs(pm):
    out = []
    for cn in GRAD_DEFS:
        ci = pm.classes.get(cn)
        if ci is None or "_compute_grads" not in ci.methods:
            raise AnalysisError(f"anchor vanished: {cn}._compute_grads")
        out.append((ci, ci.methods["_compute_grads"]))
    return out


def returned_elements(f, cfg):
    """[(element expr, stmt holding it, kind)] of the list returned by f; kind 'fixed'|'appended'|'inherited'"""
    rets = [st for st in cfg.nodes if isinstance(st, ast.Return) and st.value is not None]
    if not rets:
        return None, []
    out = []
    ret = rets[-1]
    if isinstance(ret.value, ast.List):
        return None, [(e, ret, "fixed") for e in ret.value.elts]
    if not isinstance(ret.value, ast.Name):
        return None, []
    R = ret.value.id
    for st in cfg.nodes:
        if isinstance(st, ast.Assign) and any(isinstance(t, ast.Name) and t.id == R for t in st.targets):
            if isinstance(st.value, ast.List):
                out += [(e, st, "fixed") for e in st.value.elts]
            else:
                out.append((st.value, st, "inherited"))
        elif isinstance(st, ast.AugAssign) and isinstance(st.target, ast.Name) and st.target.id == R and isinstance(st.op, ast.Add) \
                and isinstance(st.value, ast.List):
            out += [(e, st, "appended") for e in st.value.elts]
        elif isinstance(st, ast.Expr) and isinstance(st.value, ast.Call) and isinstance(st.value.func, ast.Attribute) and st.value.func.attr == "append" \
                and isinstance(st.value.func.value, ast.Name) and st.value.func.value.id == R and len(st.value.args) == 1:
            out.append((st.value.args[0], st, "appended"))          # R.append(x)  ==  R += [x]
    return R, out


def slice_names(cfg, st, names):
    stmts, inputs = cfg.backward_slice(st, names)
    read = set(names)
    for s in stmts:
        read |= cfg.uses(s)
    return stmts, read | inputs


def weights_list(pm, K):
    C, f = pm.resolve_method(K, "_get_weights")
    if f is None or C.external:
        raise AnalysisError(f"{K.name} has no _get_weights")
    rets = [n for n in ast.walk(f) if isinstance(n, ast.Return)]
    if len(rets) != 1:
        raise AnalysisError(f"{C.name}._get_weights has {len(rets)} returns")
    v = rets[0].value
    fixed, variadic = [], None
    if isinstance(v, ast.BinOp) and isinstance(v.op, ast.Add) and isinstance(v.left, ast.List):
        lst, rest = v.left, v.right
        variadic = next((attr_chain(n) for n in ast.walk(rest) if isinstance(n, ast.Attribute) and attr_chain(n) and attr_chain(n).startswith("self.")), None)
    else:
        lst = v
    if not isinstance(lst, ast.List):
        raise AnalysisError(f"{C.name}._get_weights does not return a list literal")
    for e in lst.elts:
        ch = attr_chain(e)
        if not ch or not ch.startswith("self."):
            raise AnalysisError(f"{C.name}._get_weights element {norm_src(e)} is not a self attribute")
        fixed.append(ch[5:])
    return C, f, fixed, (variadic[5:] if variadic else None)


def infer_dependencies(pm, K):
    """from _infer: downstream[w] = weights that multiply (by @ / dot) a value depending on w; relu[w] = retained activation attr"""
    C, f = pm.resolve_method(K, "_infer")
    if f is None or C.external:
        raise AnalysisError(f"{K.name} has no _infer")
    deps = {}
    relu_vars = {}
    downstream = {}
    retained = {}

    def expr_deps(e):
        d = set()
        for n in ast.walk(e):
            if isinstance(n, ast.Name) and n.id in deps:
                d |= deps[n.id]
            elif isinstance(n, ast.Attribute):
                ch = attr_chain(n)
                if ch and ch.startswith("self.") and ch.count(".") == 1:
                    d.add(ch[5:])
        return d

    def visit_products(e):
        for n in ast.walk(e):
            pairs = []
            if isinstance(n, ast.BinOp) and isinstance(n.op, ast.MatMult):
                pairs.append((n.left, n.right))
            if isinstance(n, ast.Call) and (call_name(n) or "").split(".")[-1] in ("dot", "matmul") and len(n.args) == 2:
                pairs.append((n.args[0], n.args[1]))
            for L, R in pairs:
                rch = attr_chain(R)
                if rch and rch.startswith("self."):
                    for w in expr_deps(L):
                        if w != rch[5:]:
                            downstream.setdefault(w, set()).add(rch[5:])

    def walk(body):
        for st in body:
            if isinstance(st, ast.Assign):
                visit_products(st.value)
                d = expr_deps(st.value)
                has_relu = any(isinstance(n, ast.Call) and (call_name(n) or "").split(".")[-1] == "maximum" for n in ast.walk(st.value))
                for t in st.targets:
                    if isinstance(t, (ast.Tuple, ast.List)):
                        for e_ in t.elts:
                            if isinstance(e_, ast.Name):
                                deps[e_.id] = d
                    if isinstance(t, ast.Name):
                        deps[t.id] = d
                        if has_relu:
                            relu_vars[t.id] = d
                    elif isinstance(t, ast.Attribute) and attr_chain(t) and attr_chain(t).startswith("self.") and isinstance(st.value, ast.Name):
                        retained[st.value.id] = attr_chain(t)[5:]
            elif isinstance(st, ast.Return) and st.value is not None:
                visit_products(st.value)
            elif isinstance(st, ast.If):
                walk(st.body)
                walk(st.orelse)
            elif isinstance(st, ast.For):
                # the loop variables carry the dependencies of what is iterated over; list growth inside the loop carries those of what is added
                d = expr_deps(st.iter)
                for n_ in ast.walk(st.target):
                    if isinstance(n_, ast.Name):
                        deps[n_.id] = d
                walk(st.body)
                walk(st.orelse)
            elif isinstance(st, ast.AugAssign) and isinstance(st.target, ast.Name):
                visit_products(st.value)
                deps[st.target.id] = deps.get(st.target.id, set()) | expr_deps(st.value)
            elif isinstance(st, ast.Expr):
                visit_products(st.value)
                c_ = st.value
                if isinstance(c_, ast.Call) and isinstance(c_.func, ast.Attribute) and c_.func.attr in ("append", "extend") and isinstance(c_.func.value, ast.Name) and c_.args:
                    deps[c_.func.value.id] = deps.get(c_.func.value.id, set()) | expr_deps(c_.args[0])
    walk(f.body)
    relu = {}
    for v, d in relu_vars.items():
        for w in d:
            if v in retained:
                relu[w] = retained[v]
            else:
                relu[w] = None
    return C, f, downstream, relu


def formal_sign(expr, env, gname):
    """sign (+1/-1) of an expression that is linear in the GEMINI gradient, or None if it does not depend on it;
    'mixed' if undeterminable"""
    if isinstance(expr, ast.Name):
        if expr.id == gname:
            return 1
        return env.get(expr.id)
    if isinstance(expr, ast.UnaryOp) and isinstance(expr.op, ast.USub):
        s = formal_sign(expr.operand, env, gname)
        return -s if isinstance(s, int) else s
    if isinstance(expr, ast.BinOp):
        a = formal_sign(expr.left, env, gname)
        b = formal_sign(expr.right, env, gname)
        if isinstance(expr.op, (ast.Mult, ast.MatMult, ast.Div)):
            if a is None:
                return b
            if b is None:
                return a
            return "mixed"
        if isinstance(expr.op, ast.Add):
            if a is None:
                return b
            if b is None:
                return a
            return a if a == b else "mixed"
        if isinstance(expr.op, ast.Sub):
            if a is None:
                return -b if isinstance(b, int) else b
            # g - <y,g>: the centring term is the same linear form projected; the leading term decides
            return a
    if isinstance(expr, ast.Call):
        # method call on a value (x.sum(..), x.reshape(..)) or elementwise function keeps the sign
        if isinstance(expr.func, ast.Attribute):
            base = formal_sign(expr.func.value, env, gname)
            if base is not None and not isinstance(expr.func.value, ast.Name) or (isinstance(expr.func.value, ast.Name) and expr.func.value.id not in ("np", "numpy")):
                if base is not None:
                    return base
        signs = [formal_sign(a, env, gname) for a in expr.args]
        signs = [s for s in signs if s is not None]
        if not signs:
            return None
        return signs[0] if all(s == signs[0] for s in signs) else "mixed"
    if isinstance(expr, ast.Subscript):
        return formal_sign(expr.value, env, gname)
    if isinstance(expr, ast.Attribute):
        if expr.attr == "T":
            return formal_sign(expr.value, env, gname)
        return None
    if isinstance(expr, (ast.Tuple, ast.List)):
        return None
    return None


def sign_env(f, gname):
    env = {}
    for st in ast.walk(f):
        pass
    def walk(body):
        for st in body:
            if isinstance(st, ast.Assign) and len(st.targets) == 1 and isinstance(st.targets[0], ast.Name):
                env[st.targets[0].id] = formal_sign(st.value, env, gname)
            elif isinstance(st, ast.AugAssign) and isinstance(st.target, ast.Name):
                cur = env.get(st.target.id)
                val = formal_sign(st.value, env, gname)
                if isinstance(st.op, (ast.Mult, ast.Div, ast.MatMult)):
                    env[st.target.id] = cur if val is None else ("mixed" if cur is not None else val)
                elif isinstance(st.op, ast.Add):
                    env[st.target.id] = cur if val is None else (cur if cur == val else "mixed")
                elif isinstance(st.op, ast.Sub):
                    env[st.target.id] = cur if val is None else "mixed"
            elif isinstance(st, (ast.For, ast.While, ast.If, ast.With)):
                walk(st.body)
                walk(getattr(st, "orelse", []))
    walk(f.body)
    return env


_EXACT_DEFS = set()       # classes whose _compute_grads definition was proved exact by C03-j in this run


def chain_rule(pm, ctx):
    _EXACT_DEFS.clear()
    from ..e8_models import check_model_gradient
    from ..e8_index import Unsupported
    seen = {}
    for K in pm.concrete_estimators():
        if K.name in ("Douglas",) or not any(C.name == "DiscriminativeModel" for C in K.mro):
            continue
        key = tuple(id(pm.resolve_method(K, m)[1]) for m in ("_infer", "_compute_grads", "_update_weights", "_get_weights"))
        if key in seen:
            ctx.ok("C03-j", f"{K.name}: same forward/backward functions as {seen[key]}")
            continue
        seen[key] = K.name
        C, f = pm.resolve_method(K, "_compute_grads")
        try:
            res = check_model_gradient(pm, K.name)
        except Unsupported as e:
            ctx.unrecognised("C03-j", f"{K.name}: chain rule", f"outside the translated subset: {e}")
            continue
        except RecursionError:
            ctx.unrecognised("C03-j", f"{K.name}: chain rule", "term too deep")
            continue
        if res and all(st_ == "exact" for _, st_, _ in res) and C is not None:
            _EXACT_DEFS.add(C.name)
        for wname, status, detail in res:
            site = f"{K.name}: direction of {wname}"
            if status == "exact":
                ctx.ok("C03-j", site, "= -(dGEMINI/dy . dy/dtheta) + d penalty/dtheta")
            elif status == "undecided":
                ctx.undecided_site("C03-j", site, detail)
            else:
                ctx.violation("C03-j", C.unit.relpath, f"{C.name}._compute_grads", f"direction of {wname} [{K.name}]", f"the direction of {wname} is not the gradient of "
                              f"-GEMINI + penalty through {K.name}._infer: {detail}", line=f.lineno, site=site)


def run(pm, ctx):
    ctx.rule("C03-a", "no parameter may receive a direction built from another parameter's gradient", floor=14)
    ctx.rule("C03-b", "chain rule: the gradient of an upstream parameter must read every downstream weight (and the retained "
             "activation across a ReLU)", floor=5)
    ctx.rule("C03-c", "gradients handed to the optimiser are aligned, in number and axes, with the weights it holds", floor=30)
    ctx.rule("C03-d", "a per-sample quantity inside back-propagation must not be computed from other samples' rows", floor=12)
    ctx.rule("C03-e", "each step back-propagates the GEMINI gradient of the very batch that was forwarded", floor=6)
    ctx.rule("C03-f", "the optimiser must update the arrays the model predicts with", floor=30)
    ctx.rule("C03-g", "directions are descent directions of -GEMINI + penalty", floor=12)
    ctx.rule("C03-h", "the penalty term of the direction is the gradient of the documented penalty (l2: 2*reg*W; kernel-weighted l2: 2*reg*K@W)", floor=2)

    ctx.rule("C03-j", "the direction handed to the optimiser is -(chain rule of the GEMINI gradient through the model's own forward function) plus "
             "the gradient of the model's penalty: symbolic differentiation of _infer compared, as canonical forms, with _compute_grads / _update_weights", floor=17)
    chain_rule(pm, ctx)
    ctx.rule("C03-k", "Douglas: the direction of the leaf scores, the gradient on the leaf memberships and the gradient on each binning's logits are the chain rule through "
             "the two softmax layers (local term comparison with declared inputs; the Kronecker / cumsum / sort steps are judged by C03-l/m/n/i)", floor=3)
    from ..e8_models import douglas_local
    from ..e8_index import Unsupported as _U8
    du = pm.unit("gemclus.tree.douglas")
    try:
        res = douglas_local(pm)
    except _U8 as e:
        res = [("Douglas: local chain rules", "undecided", f"outside the translated subset: {e}")]
    for site, status, detail in res:
        if status == "exact":
            ctx.ok("C03-k", site)
        elif status == "undecided":
            ctx.unrecognised("C03-k", site, detail)
        else:
            ctx.violation("C03-k", du.relpath, "Douglas._compute_grads", site, f"{site}: {detail}", line=pm.classes["Douglas"].methods["_compute_grads"].lineno, site=site)
    ctx.rule("C03-l", "Douglas: forward and backward agree on the layout of the leaf axis (Kronecker order of the merged binnings)", floor=1)
    from ..e8_models import douglas_kronecker
    site = "Douglas._merge_leaf: Kronecker order"
    try:
        st_, det_ = douglas_kronecker(pm)
        if st_ == "exact":
            ctx.ok("C03-l", site, det_)
        else:
            ctx.violation("C03-l", du.relpath, "Douglas._merge_leaf", "product layout", det_, line=pm.classes["Douglas"].methods["_merge_leaf"].lineno, site=site)
    except _U8 as e:
        ctx.unrecognised("C03-l", site, f"outside the translated subset: {e}")
    ctx.rule("C03-m", "Douglas: the update of each cut-point vector is minus the chain rule through sort -> padding -> cumulative sum of the bin biases: the "
             "coefficient matrix of the backward pass is the transpose of the forward one for every number of cuts (linear sequence maps, n = 1..7), summed over "
             "the samples and mapped back by the inverse sorting permutation", floor=1)
    from .. import e9_douglas
    e9res, e9fw, e9bw = e9_douglas.judge_full(pm)
    pm._e9_douglas = (e9res, e9fw, e9bw)
    for site, status, detail, (meth, line) in e9res:
        if not site.startswith("Douglas._compute_grads"):
            continue
        if status == "exact":
            ctx.ok("C03-m", site, detail)
        elif status == "undecided":
            ctx.unrecognised("C03-m", site, detail)
        else:
            ctx.violation("C03-m", du.relpath, f"Douglas.{meth}", site, detail, line=line or pm.classes["Douglas"].methods[meth].lineno, site=site)
    if not any(site.startswith("Douglas._compute_grads") for site, *_ in e9res):
        ctx.unrecognised("C03-m", "Douglas._compute_grads: cut-point update", "the forward map cuts -> biases could not be derived: " + "; ".join(d for _, s_, d, _ in e9res if s_ != "exact")[:200])
    ctx.rule("C03-n", "Douglas: each binning's softmax backprop starts from the marginal of (leaf gradient x leaf memberships) over the axes of all OTHER features: the leaf axis "
             "is un-flattened with one axis per used feature in list order and summed over every feature axis but its own (shape expressions folded for 1, 2 and 3 features "
             "with different numbers of cuts)", floor=6)
    from .. import e9_kron
    gname = next((d_.split("name=")[1] for s_, st_, d_ in res if s_ == "Douglas: gradient on the leaf memberships" and st_ == "exact" and "name=" in d_), None)
    site = "Douglas._compute_grads: Kronecker marginalisation"
    if gname is None:
        ctx.unrecognised("C03-n", site, "the gradient on the leaf memberships was not identified (C03-k)")
    else:
        try:
            for st_, det_, line_ in e9_kron.judge(pm, gname):
                if st_ == "exact":
                    ctx.ok("C03-n", f"{site}: {det_}")
                else:
                    ctx.violation("C03-n", du.relpath, "Douglas._compute_grads", "weighted_grad", det_, line=line_, site=f"{site}: {det_.split(':')[0]}")
        except e9_kron.Unsupported as e:
            ctx.unrecognised("C03-n", site, f"outside the folded subset: {e}")
    concrete = pm.concrete_estimators()
    # representative concrete estimator per _compute_grads definition
    def any_concrete(ci):
        for K in concrete:
            C, f = pm.resolve_method(K, "_compute_grads")
            if C is ci:
                return K
        return None

    # ---------------------------------------------------------------- a, b, g per definition
    for ci, f in grads_defs(pm):
        unit = ci.unit
        qn = f"{ci.name}._compute_grads"
        cfg = CFG(f)
        R, elems = returned_elements(f, cfg)
        if not elems:
            ctx.undecided_site("C03-a", qn, "cannot identify the returned gradient list")
            continue
        gvars = {}
        for e, st, kind in elems:
            core = e.operand if isinstance(e, ast.UnaryOp) and isinstance(e.op, ast.USub) else e
            if isinstance(core, ast.Name) and kind != "inherited":
                gvars.setdefault(core.id, (e, st, kind))      # only a (negated) variable stands for "the gradient of a parameter"
        # penalties added afterwards: R[i] += expr
        pen = [st for st in cfg.nodes if isinstance(st, ast.AugAssign) and isinstance(st.target, ast.Subscript)
               and isinstance(st.target.value, ast.Name) and st.target.value.id == R]
        for g, (e, st, kind) in gvars.items():
            stmts, read = slice_names(cfg, st, [g])
            others = sorted((set(gvars) - {g}) & read)
            site = f"{qn}: {g}"
            if others and ci.name in _EXACT_DEFS:
                ctx.ok("C03-a", site, f"reads {others}, but the exact chain-rule comparison (C03-j) holds for this definition")
            elif others:
                bad = next((s for s in sorted(stmts, key=lambda s: s.lineno) if set(others) & cfg.uses(s)), st)
                ctx.violation("C03-a", unit.relpath, qn, norm_src(bad), f"the gradient {g} is computed from the gradient(s) {others} "
                              f"of other parameters", line=bad.lineno, site=site)
            else:
                ctx.ok("C03-a", site)
        for st in pen:
            if ci.name == "KernelRIM":
                site_h = f"{qn}: penalty closed form"
                from ..match import resolve_expr
                full = resolve_expr(cfg, st, st.value)
                kern = [n for n in ast.walk(full) if (isinstance(n, ast.Call) and (call_name(n) or "").split(".")[-1] in ("dot", "matmul")) or
                        (isinstance(n, ast.BinOp) and isinstance(n.op, ast.MatMult))]
                if len(kern) != 1:
                    ctx.unrecognised("C03-h", site_h, f"cannot isolate the K @ W product in {norm_src(full)}")
                else:
                    k = kern[0]
                    a0, a1 = (k.args[0], k.args[1]) if isinstance(k, ast.Call) else (k.left, k.right)
                    prod_ok = attr_chain(a1) == "self.W_" and (attr_chain(a0) or "").startswith("self.") and "kernel" in (attr_chain(a0) or "")
                    try:
                        from ..e6_algebra import to_rat
                        okf = to_rat(full).equals(to_rat(ast.parse(f"2 * self.reg * PROD", mode="eval").body, env=None, atom_of=lambda n: "PROD" if n is k else norm_src(n))) \
                            if False else None
                    except Exception:
                        okf = None
                    # canonical comparison with the product as one atom
                    from ..e6_algebra import to_rat, NotScalarArithmetic
                    try:
                        lhs = to_rat(full, atom_of=lambda n: "PROD" if n is k else norm_src(n))
                        rhs = to_rat(ast.parse("2 * self.reg * PROD", mode="eval").body)
                        okf = lhs.equals(rhs)
                    except NotScalarArithmetic:
                        okf = None
                    if okf is None:
                        ctx.unrecognised("C03-h", site_h, f"penalty {norm_src(full)} is not a scalar multiple of K @ W")
                    elif okf and prod_ok and isinstance(st.op, ast.Add):
                        ctx.ok("C03-h", site_h, f"{norm_src(full)} == 2*reg*(training kernel @ W_)")
                    else:
                        ctx.violation("C03-h", unit.relpath, qn, norm_src(st)[:160], f"the penalty gradient is {norm_src(full)}; the documented penalty reg*tr(W'KW) has gradient "
                                      f"2*reg*K@W with K the stored training kernel", line=st.lineno, site=site_h)
            stmts, read = slice_names(cfg, st, list(cfg.uses(st) - {R}))
            others = sorted(set(gvars) & read)
            site = f"{qn}: penalty {norm_src(st.target)}"
            if others or R in {n.id for n in ast.walk(st.value) if isinstance(n, ast.Name)}:
                ctx.violation("C03-a", unit.relpath, qn, norm_src(st), "penalty term reads parameter gradients", line=st.lineno, site=site)
            else:
                ctx.ok("C03-a", site)

        if ci.name == "KernelRIM" and not pen and "KernelRIM" in _EXACT_DEFS:
            # the penalty is not written as `list[i] += ...`: its closed form is part of the exact comparison of C03-j (direction = -chain rule + 2*reg*K@W)
            ctx.ok("C03-h", f"{qn}: penalty closed form", "decided by the exact comparison of C03-j")
        # ---- b chain rule
        K = any_concrete(ci)
        if K is None:
            raise AnalysisError(f"no concrete estimator uses {qn}")
        try:
            WC, wf, fixed, variadic = weights_list(pm, K)
        except AnalysisError:
            raise
        IC, inf, downstream, relu = infer_dependencies(pm, K)
        fixed_elems = [x for x in elems if x[2] == "fixed"]
        app_elems = [x for x in elems if x[2] == "appended"]
        inh = [x for x in elems if x[2] == "inherited"]
        pairs = []
        if not inh:
            if len(fixed_elems) != len(fixed):
                ctx.violation("C03-c", unit.relpath, qn, norm_src(fixed_elems[0][1]) if fixed_elems else "return",
                              f"{len(fixed_elems)} gradients are returned for the {len(fixed)} weights of {WC.name}._get_weights",
                              line=f.lineno, site=f"{qn}: arity")
            for w, (e, st, kind) in zip(fixed, fixed_elems):
                pairs.append((w, e, st))
            if variadic and app_elems:
                pairs.append((variadic, app_elems[0][0], app_elems[0][1]))
        for w, e, st in pairs:
            need = sorted(downstream.get(w, ()))
            act = relu.get(w, "absent")
            if not need and act == "absent":
                continue
            names = [n.id for n in ast.walk(e) if isinstance(n, ast.Name)]
            stmts, read = slice_names(cfg, st, names)
            site = f"{qn}: d/d{w}"
            missing = [d for d in need if f"self.{d}" not in read]
            if missing:
                ctx.violation("C03-b", unit.relpath, qn, norm_src(st), f"the gradient of {w} never reads the downstream weight(s) "
                              f"{missing} that multiply its contribution in {IC.name}._infer", line=st.lineno, site=site)
                continue
            if act != "absent":
                if act is None or f"self.{act}" not in read:
                    ctx.violation("C03-b", unit.relpath, qn, norm_src(st), f"the gradient of {w} crosses a ReLU in {IC.name}._infer but "
                                  f"never reads the retained activation {'self.' + act if act else '(none retained)'}", line=st.lineno, site=site)
                    continue
            ctx.ok("C03-b", site, f"reads {['self.' + d for d in need]}" + (f" and self.{act}" if act not in ("absent", None) else ""))

        # ---- g formal sign
        gname = func_params(f)[3] if len(func_params(f)) > 3 else "gradient"
        env = sign_env(f, gname)
        for e, st, kind in elems:
            if kind == "inherited":
                continue
            if ci.name == "Douglas" and kind == "appended":
                ctx.ok("C03-g", f"{qn}: cut gradients", "excluded: the forward pass negates the cut points (see DESIGN)")
                continue
            s = formal_sign(e, env, gname)
            site = f"{qn}: sign of {norm_src(e)}"
            if s == -1:
                ctx.ok("C03-g", site)
            elif s == 1:
                ctx.violation("C03-g", unit.relpath, qn, norm_src(st), f"{norm_src(e)} has the sign of +dGEMINI: the optimiser would "
                              f"minimise the GEMINI", line=st.lineno, site=site)
            elif ci.name in _EXACT_DEFS:
                ctx.ok("C03-g", site, "sign not derivable from negations alone; the exact chain-rule comparison (C03-j) holds for this definition")
            else:
                ctx.undecided_site("C03-g", site, f"formal sign is {s}")
        for st in pen:
            site = f"{qn}: penalty sign"
            neg = any(isinstance(n, ast.UnaryOp) and isinstance(n.op, ast.USub) for n in ast.walk(st.value))
            if isinstance(st.op, ast.Add) and not neg:
                ctx.ok("C03-g", site)
            else:
                ctx.violation("C03-g", unit.relpath, qn, norm_src(st), "the penalty gradient is not added to the direction", line=st.lineno, site=site)

    # RIM._update_weights penalty
    rim = pm.classes.get("RIM")
    if rim is None or "_update_weights" not in rim.methods:
        raise AnalysisError("anchor vanished: RIM._update_weights")
    uf = rim.methods["_update_weights"]
    pens = [st for st in ast.walk(uf) if isinstance(st, ast.AugAssign) and isinstance(st.target, ast.Subscript)]
    WC, wf, fixed, _ = weights_list(pm, rim)
    gparam = func_params(uf)[2]
    for st in pens:
        site = "RIM._update_weights: penalty"
        idx = st.target.slice
        reads = {attr_chain(n)[5:] for n in ast.walk(st.value) if isinstance(n, ast.Attribute) and (attr_chain(n) or "").startswith("self.")}
        ok_idx = isinstance(idx, ast.Constant) and isinstance(idx.value, int) and idx.value < len(fixed) and fixed[idx.value] in reads
        ok_tgt = isinstance(st.target.value, ast.Name) and st.target.value.id == gparam
        neg = any(isinstance(n, ast.UnaryOp) and isinstance(n.op, ast.USub) for n in ast.walk(st.value))
        upd = [n for n in ast.walk(uf) if isinstance(n, ast.Call) and (call_name(n) or "").endswith("update_params")]
        # ... or the inherited step: super()._update_weights(weights, gradients) when the base method performs the optimiser step with its own arguments
        for n in ast.walk(uf):
            if isinstance(n, ast.Call) and isinstance(n.func, ast.Attribute) and n.func.attr == uf.name and isinstance(n.func.value, ast.Call) \
                    and isinstance(n.func.value.func, ast.Name) and n.func.value.func.id == "super" and [norm_src(a) for a in n.args] == func_params(uf)[1:]:
                _, bm = pm.resolve_method(rim, uf.name, after=rim)
                if bm is not None and any(isinstance(c, ast.Call) and (call_name(c) or "").endswith("update_params") for c in ast.walk(bm)):
                    upd.append(n)
        upd.sort(key=lambda c: c.lineno)
        before = upd and st.lineno < upd[0].lineno
        from ..match import canon_equal
        if canon_equal(st.value, "2 * self.reg * self.W_"):
            ctx.ok("C03-h", "RIM._update_weights: penalty closed form", "2*reg*W_ = d/dW reg*||W||^2")
        else:
            ctx.violation("C03-h", rim.unit.relpath, "RIM._update_weights", norm_src(st), f"the penalty gradient is {norm_src(st.value)}, not 2*reg*W_ (gradient of reg*||W||^2)",
                          line=st.lineno, site="RIM._update_weights: penalty closed form")
        if ok_idx and ok_tgt and isinstance(st.op, ast.Add) and not neg and before:
            ctx.ok("C03-g", site)
            ctx.ok("C03-a", site)
        else:
            ctx.violation("C03-g", rim.unit.relpath, "RIM._update_weights", norm_src(st),
                          "the l2 penalty is not added, before the optimiser step, to the gradient of the weight it penalises",
                          line=st.lineno, site=site)

    # ---------------------------------------------------------------- c, d via E3 on every estimator
    for K in concrete:
        if K.name == "Kauri":
            continue
        for batch in ("int", "none"):
            log = []

            def hook(st, fr, value, events, log=log):
                if fr.qual.endswith("._compute_grads") or fr.qual.endswith("intercept_grads"):
                    g = fr.env.get("gradient", fr.env.get("y_pred"))
                    b = g.axes[0] if isinstance(g, Arr) and g.axes else None
                    log.append((st, fr, value, events, b))
            I, obj, res = fit_scenario(pm, K, batch=batch, hooks={"stmt_hook": hook})
            site = f"{K.name}.fit[batch={batch}]"
            evs = [e for e in dedup_events(nonusage(I.events)) if e.kind in ("axis-mismatch", "fancy-inplace")
                   and any(q.endswith("_compute_grads") or q.endswith("_update_weights") or q.endswith("intercept_grads") for q in e.ctxpath)]
            for e in evs:
                st = e.stmt()
                ctx.violation("C03-c", e.unit.relpath, e.func, norm_src(st) if st is not None else "?", f"{e.msg} [{K.name}, batch={batch}]",
                              line=getattr(e.node, "lineno", None), site=site)
            recs = I.update_params_checks
            if not recs:
                ctx.undecided_site("C03-c", site, "no optimiser.update_params call was reached")
            elif not evs:
                bad = [r for r in recs if r["ok"] is False]
                unk = [r for r in recs if r["ok"] is None]
                if bad:
                    pass  # already reported through events
                elif unk and K.name != "Douglas":
                    ctx.undecided_site("C03-c", site, f"weights/gradients not fully typed: {unk[0]['weights']!r} / {unk[0]['grads']!r}")
                else:
                    ctx.ok("C03-c", site, f"{len(recs)} update_params sites: {recs[0]['weights']!r}")
            # ---- d per-sample rule
            viol = []
            nstm = 0
            for st, fr, value, events, b in log:
                nstm += 1
                # b: the batch (sample) axis of this back-propagation call
                if b is None or not b.symbolic:
                    continue
                has_n = isinstance(value, Arr) and any(a == b for a in value.axes)
                if not has_n:
                    continue
                red = [e for e in events if e.kind == "usage" and e.detail.get("cls") in ("reduce", "positional", "argreduce")
                       and e.detail.get("axis") == b.name and e.func == fr.qual]
                if red:
                    viol.append((st, fr, red[0]))
            if viol:
                for st, fr, e in viol[:3]:
                    ctx.violation("C03-d", fr.unit.relpath, fr.qual, norm_src(st), f"a per-sample value is computed with '{e.detail.get('op')}' over "
                                  f"the sample axis [{K.name}]", line=st.lineno, site=site)
            elif nstm:
                ctx.ok("C03-d", site, f"{nstm} back-propagation statements, none mixes rows")
            else:
                ctx.undecided_site("C03-d", site, "_compute_grads was not reached")

    # ---- the same shape / row rules on a must-link / cannot-link decorated model
    from ..e3_axes import Lst, Tup
    mu = pm.unit("gemclus.mlcl")
    I = Interp(pm)
    obj = symbolic_estimator(I, pm.classes["MLPModel"], "int")
    pairs = Lst(elem=Tup([Num("i", space=Ax("N")), Num("i", space=Ax("N"))]), length=Ax("P"))
    I.call_function(mu, mu.func("add_mlcl_constraint"), [obj, pairs, pairs, Num("f")], {}, qual="add_mlcl_constraint")
    X, Y = data_XY()
    I.call_method(obj, "fit", [X, Y])
    site = "mlcl-decorated MLPModel.fit[batch=int]"
    evs = [e for e in dedup_events(nonusage(I.events)) if e.kind in ("axis-mismatch", "fancy-inplace", "index-space")
           and any("intercept_grads" in q or q.endswith("_compute_grads") or q.endswith("_update_weights") for q in e.ctxpath)]
    for e in evs:
        st = e.stmt()
        ctx.violation("C03-c", e.unit.relpath, e.func, norm_src(st)[:160] if st is not None else "?", f"[{e.kind}] {e.msg}", line=getattr(e.node, "lineno", None), site=site)
    if not evs:
        if I.update_params_checks and all(r["ok"] for r in I.update_params_checks):
            ctx.ok("C03-c", site, "constraint terms injected row-wise, gradients aligned with the weights")
        else:
            ctx.undecided_site("C03-c", site, "update_params not reached / not typed")

    # ---- Douglas: the cut gradient computed in sorted order is mapped back to the cuts' own order
    # ---- o: every entry of a parameter receives its own partial derivative (no "active set" shortcut)
    ctx.rule("C03-o", "the direction of a parameter has the partial derivative of the objective in EVERY entry: a gradient array that is allocated as zeros and filled "
             "only at a data-dependent subset of rows or columns (the currently selected features, the non-zero weights) hands the optimiser a zero direction where the "
             "true gradient is not zero", floor=6)
    for ci_, f_ in grads_defs(pm):
        site_o = f"{ci_.name}._compute_grads: gradients defined on every entry"
        subset_names = {}
        for st_ in ast.walk(f_):
            if isinstance(st_, ast.Assign) and len(st_.targets) == 1 and isinstance(st_.targets[0], (ast.Name, ast.Tuple)):
                v_ = st_.value
                core = v_.value if isinstance(v_, ast.Subscript) else v_
                cn_ = call_name(core) if isinstance(core, ast.Call) else None
                if cn_ and (cn_.split(".")[-1] in ("get_selection", "nonzero", "flatnonzero", "argwhere") or (cn_.split(".")[-1] == "where" and len(core.args) == 1)):
                    for t_ in ast.walk(st_.targets[0]):
                        if isinstance(t_, ast.Name):
                            subset_names[t_.id] = st_
        zeros = {st_.targets[0].id: st_ for st_ in ast.walk(f_) if isinstance(st_, ast.Assign) and len(st_.targets) == 1 and isinstance(st_.targets[0], ast.Name)
                 and isinstance(st_.value, ast.Call) and (call_name(st_.value) or "").split(".")[-1] in ("zeros", "zeros_like")}
        bad_o = None
        for st_ in ast.walk(f_):
            tg_ = st_.targets[0] if isinstance(st_, ast.Assign) and len(st_.targets) == 1 else (st_.target if isinstance(st_, ast.AugAssign) else None)
            if isinstance(tg_, ast.Subscript) and isinstance(tg_.value, ast.Name) and tg_.value.id in zeros:
                idx_names = {n_.id for n_ in ast.walk(tg_.slice) if isinstance(n_, ast.Name)}
                hit = idx_names & set(subset_names)
                if hit:
                    bad_o = (st_, tg_.value.id, sorted(hit)[0])
                    break
        if bad_o is not None:
            st_, g_, sel_ = bad_o
            ctx.violation("C03-o", ci_.unit.relpath, f"{ci_.name}._compute_grads", norm_src(st_)[:160], f"`{g_}` is allocated as zeros and only filled at `{sel_}` = "
                          f"{norm_src(subset_names[sel_].value)[:60]}: the entries outside that data-dependent subset receive a zero direction although their partial "
                          "derivative is not zero", line=st_.lineno, site=site_o)
        else:
            ctx.ok("C03-o", site_o, "no gradient restricted to a data-dependent subset of entries")

    ctx.rule("C03-i", "each Douglas cut point must receive its own gradient, not the one of the cut at its sorted position", floor=1)
    dg = pm.classes["Douglas"].methods["_compute_grads"]
    cfgd = CFG(dg)
    back = [s for s in cfgd.nodes if isinstance(s, ast.Assign) and isinstance(s.value, ast.Subscript) and any(isinstance(n, ast.Attribute) and n.attr == "_all_orders" for n in ast.walk(s.value.slice))]
    _e9 = getattr(pm, "_e9_douglas", (None, None, None))
    if _e9[1] is not None and _e9[2] is not None and not _e9[2]["update"].in_perm:
        # decided on the derived maps: whatever the spelling (gather by argsort(order), scatter through order, ...)
        fwp, bwp = _e9[1]["bias"].in_perm, _e9[2]["update"].out_perm
        if bwp == -fwp:
            ctx.ok("C03-i", "Douglas._compute_grads: un-sorting", "the update is mapped back by the inverse of the permutation the forward pass gathers the cuts with")
        else:
            ctx.violation("C03-i", pm.classes["Douglas"].unit.relpath, "Douglas._compute_grads", "cut-point update", "the sorted-space cut gradient is not re-indexed by the inverse "
                          "of the permutation used by the forward pass: with 3 or more cuts a cut receives another cut's gradient", line=_e9[2]["line"],
                          site="Douglas._compute_grads: un-sorting")
    elif len(back) != 1:
        ctx.unrecognised("C03-i", "Douglas._compute_grads: un-sorting", "no single re-indexing by the retained sort orders")
    else:
        idx = back[0].value.slice
        n_arg = 0
        cur = idx
        while isinstance(cur, ast.Call) and (call_name(cur) or "").split(".")[-1] == "argsort" and len(cur.args) == 1:
            n_arg += 1
            cur = cur.args[0]
        if n_arg % 2 == 1:
            ctx.ok("C03-i", "Douglas._compute_grads: un-sorting", f"re-indexed by argsort(order) ({n_arg} argsort on the retained order)")
        else:
            ctx.violation("C03-i", pm.classes["Douglas"].unit.relpath, "Douglas._compute_grads", norm_src(back[0]), "the sorted-space cut gradient is re-indexed by the sorting "
                          "permutation itself, not by its inverse: with 3 or more cuts a cut receives another cut's gradient", line=back[0].lineno,
                          site="Douglas._compute_grads: un-sorting")

    # ---------------------------------------------------------------- e loop protocol
    loop_protocol(pm, ctx)

    # ---------------------------------------------------------------- f aliasing
    for K in concrete:
        if K.name == "Kauri":
            continue
        site = f"{K.name}: optimiser aliasing"
        WC, wf, fixed, variadic = weights_list(pm, K)
        wattrs = set(fixed) | ({variadic} if variadic else set())
        rebinds = []
        for start in ("_update_weights", "_compute_grads", "_infer", "_batchify", "_n_selected_features", "get_selection",
                      "_group_lasso_penalty", "predict_proba", "path"):
            for C, unit, f in reachable_methods(pm, K, start, max_depth=4):
                if f.name in ("_init_params", "fit", "__init__"):
                    continue
                sn = self_name(f) if C is not None else None
                for n in ast.walk(f):
                    if isinstance(n, ast.Assign):
                        for t in n.targets:
                            if isinstance(t, ast.Attribute) and isinstance(t.value, ast.Name) and t.attr in wattrs \
                                    and (t.value.id == sn or t.value.id == "clf"):
                                rebinds.append((unit, C.name + "." + f.name if C else f.name, n))
        if rebinds:
            for unit, qn, n in rebinds[:2]:
                ctx.violation("C03-f", unit.relpath, qn, norm_src(n), f"weight attribute re-bound after it was handed to the optimiser "
                              f"[{K.name}]: the optimiser keeps updating the old array", line=n.lineno, site=site)
        else:
            ctx.ok("C03-f", site, f"weights {sorted(wattrs)} only mutated in place")
    # the optimiser is built from _get_weights()'s list
    bu = pm.unit("gemclus._base_gemini")
    ff = bu.func("DiscriminativeModel.fit")
    cfg = CFG(ff)
    wdef = [st for st in cfg.nodes if isinstance(st, ast.Assign) and norm_src(st.value) == "self._get_weights()"]
    opt = [st for st in cfg.nodes if isinstance(st, ast.Assign) and attr_chain(st.targets[0]) == "self.optimiser_"]
    okk = bool(wdef) and bool(opt)
    for st in opt:
        call = st.value
        if not (isinstance(call, ast.Call) and call.args and isinstance(call.args[0], ast.Name) and wdef
                and call.args[0].id == wdef[0].targets[0].id and cfg.reaching()[st].get(call.args[0].id) == frozenset([wdef[0]])):
            okk = False
    upd = [st for st in cfg.nodes if "_update_weights(" in norm_src(st)]
    for st in upd:
        c = [n for n in ast.walk(st) if isinstance(n, ast.Call) and (call_name(n) or "").endswith("_update_weights")][0]
        if not (c.args and isinstance(c.args[0], ast.Name) and wdef and cfg.reaching()[st].get(c.args[0].id) == frozenset([wdef[0]])):
            okk = False
    if okk and upd:
        ctx.ok("C03-f", "DiscriminativeModel.fit: optimiser built from _get_weights()")
    else:
        ctx.violation("C03-f", bu.relpath, "DiscriminativeModel.fit", "optimiser construction",
                      "the optimiser / _update_weights do not receive the list returned by _get_weights()", line=ff.lineno)
    for K in concrete:
        if K.name == "Kauri":
            continue
        C, f = pm.resolve_method(K, "_get_weights")
        bad = [n for n in ast.walk(f) if isinstance(n, ast.Call) and (call_name(n) or "").split(".")[-1] in ("copy", "array", "deepcopy", "asarray")]
        if bad:
            ctx.violation("C03-f", C.unit.relpath, f"{C.name}._get_weights", norm_src(bad[0]), "_get_weights returns copies", line=bad[0].lineno,
                          site=f"{K.name}._get_weights")
        else:
            ctx.ok("C03-f", f"{K.name}._get_weights returns the arrays themselves")


def _root(a):
    n = a.name
    while isinstance(n, str) and (n.startswith("sub(") or n.startswith("sel(")) and n.endswith(")"):
        n = n[4:-1]
    return n


def loop_protocol(pm, ctx):
    sites = [("gemclus._base_gemini", "DiscriminativeModel.fit", "self"), ("gemclus.sparse._base_sparse", "_path", "clf")]
    for mod, qn, recv in sites:
        u = pm.unit(mod)
        f = u.func(qn)
        cfg = CFG(f)
        loops = [n for n in ast.walk(f) if isinstance(n, ast.For) and isinstance(n.iter, ast.Call)
                 and (call_name(n.iter) or "") == f"{recv}._batchify"]
        site = f"{qn}: training step"
        if len(loops) != 1:
            raise AnalysisError(f"anchor vanished: the batch loop of {qn}")
        lp = loops[0]
        if not (isinstance(lp.target, ast.Tuple) and len(lp.target.elts) == 2 and all(isinstance(e, ast.Name) for e in lp.target.elts)):
            ctx.violation("C03-e", u.relpath, qn, norm_src(lp.target), "the batch loop does not unpack (X_batch, affinity_batch)", line=lp.lineno, site=site)
            continue
        xb, ab = lp.target.elts[0].id, lp.target.elts[1].id
        body = lp.body
        problems = []
        step = {}
        for st in body:
            for n in ast.walk(st):
                if isinstance(n, ast.Call):
                    cn = call_name(n) or ""
                    if cn == f"{recv}._infer":
                        step.setdefault("infer", []).append((st, n))
                    elif cn == f"{recv}._compute_grads":
                        step.setdefault("grads", []).append((st, n))
                    elif cn == f"{recv}._update_weights":
                        step.setdefault("update", []).append((st, n))
                    elif any(k.arg == "return_grad" for k in n.keywords):
                        step.setdefault("gemini", []).append((st, n))
        for k in ("infer", "gemini", "grads", "update"):
            if len(step.get(k, [])) != 1:
                problems.append(f"expected exactly one {k} call in the step, found {len(step.get(k, []))}")
        if not problems:
            (s1, c1), (s2, c2), (s3, c3), (s4, c4) = step["infer"][0], step["gemini"][0], step["grads"][0], step["update"][0]
            order = [body.index(s) if s in body else -1 for s in (s1, s2, s3, s4)]
            if order != sorted(order) or -1 in order or len(set(order)) != 4:
                problems.append("the four calls are not four successive statements of the loop body in the order "
                                "infer, gemini, _compute_grads, _update_weights")
            else:
                yp = s1.targets[0].id if isinstance(s1, ast.Assign) and isinstance(s1.targets[0], ast.Name) else None
                if not (c1.args and isinstance(c1.args[0], ast.Name) and c1.args[0].id == xb):
                    problems.append(f"_infer is not applied to the batch {xb}")
                rk = [k for k in c1.keywords if k.arg == "retain"]
                if rk and not (isinstance(rk[0].value, ast.Constant) and rk[0].value.value is True):
                    problems.append("the forward pass of the step does not retain its activations")
                if not (len(c2.args) >= 2 and isinstance(c2.args[0], ast.Name) and c2.args[0].id == yp
                        and isinstance(c2.args[1], ast.Name) and c2.args[1].id == ab):
                    problems.append(f"the GEMINI is not evaluated on ({yp}, {ab})")
                rg = [k for k in c2.keywords if k.arg == "return_grad"]
                if not (rg and isinstance(rg[0].value, ast.Constant) and rg[0].value.value is True):
                    problems.append("return_grad is not True")
                gv = None
                if isinstance(s2, ast.Assign) and isinstance(s2.targets[0], ast.Tuple) and len(s2.targets[0].elts) == 2 \
                        and isinstance(s2.targets[0].elts[1], ast.Name):
                    gv = s2.targets[0].elts[1].id
                else:
                    problems.append("the GEMINI call result is not unpacked into (score, gradient)")
                if not (len(c3.args) == 3 and [norm_src(a) for a in c3.args] == [xb, yp, gv]):
                    problems.append(f"_compute_grads is not called with ({xb}, {yp}, {gv})")
                g2 = s3.targets[0].id if isinstance(s3, ast.Assign) and isinstance(s3.targets[0], ast.Name) else None
                if not (len(c4.args) == 2 and isinstance(c4.args[1], ast.Name) and c4.args[1].id == g2):
                    problems.append("_update_weights does not receive the gradients just computed")
                # another retaining forward pass between infer and compute_grads
                for st in body[order[0] + 1:order[2]]:
                    for n in ast.walk(st):
                        if isinstance(n, ast.Call) and (call_name(n) or "").split(".")[-1] in ("_infer", "predict_proba", "predict", "score") and n is not c1:
                            problems.append("another forward pass runs between the retained one and _compute_grads")
        if problems:
            ctx.violation("C03-e", u.relpath, qn, norm_src(lp)[:200], "; ".join(problems), line=lp.lineno, site=site)
        else:
            ctx.ok("C03-e", site, "infer -> gemini(return_grad=True) -> _compute_grads -> _update_weights on one batch")
        # the gemini object evaluated is the one whose affinity was computed
        gem = norm_src(step["gemini"][0][1].func) if step.get("gemini") else None
        aff = [st for st in ast.walk(f) if isinstance(st, ast.Assign) and isinstance(st.value, ast.Call)
               and (call_name(st.value) or "").endswith(".compute_affinity")]
        if gem and aff and all((call_name(a.value) or "").split(".")[0] == gem for a in aff):
            ctx.ok("C03-e", f"{qn}: affinity and score come from the same GEMINI object {gem}")
        else:
            ctx.violation("C03-e", u.relpath, qn, "compute_affinity", "affinity and objective come from different GEMINI objects", line=f.lineno,
                          site=f"{qn}: gemini object")
    # the two loops are mirror images
    f1 = pm.unit("gemclus._base_gemini").func("DiscriminativeModel.fit")
    f2 = pm.unit("gemclus.sparse._base_sparse").func("_path")
    l1 = [n for n in ast.walk(f1) if isinstance(n, ast.For) and (call_name(n.iter) or "") == "self._batchify"][0]
    l2 = [n for n in ast.walk(f2) if isinstance(n, ast.For) and (call_name(n.iter) or "") == "clf._batchify"][0]
    m = {"self": "clf", "gemini": "gemini_objective"}
    from ..e5_mirror import alpha_equal
    same = (len(l1.body) == len(l2.body) and all(mirror_equal(a, b, m) for a, b in zip(l1.body, l2.body))) or alpha_equal([l1], [l2], {"self": "clf"})
    if same:
        ctx.ok("C03-e", "fit / _path steps are mirror images under self<->clf")
    else:
        ctx.violation("C03-e", pm.unit("gemclus.sparse._base_sparse").relpath, "_path", norm_src(l2)[:200],
                      "the training step of the sparse path differs from the one of fit", line=l2.lineno, site="fit vs _path step")
    # mlcl wrapper forwards (X, y_pred, gradient) unchanged
    mu = pm.unit("gemclus.mlcl")
    af = mu.func("add_mlcl_constraint")
    ig = [n for n in ast.walk(af) if isinstance(n, ast.FunctionDef) and n.name == "intercept_grads"]
    if not ig:
        raise AnalysisError("anchor vanished: mlcl intercept_grads")
    ig = ig[0]
    params = func_params(ig)
    rets = [n for n in ast.walk(ig) if isinstance(n, ast.Return)]
    ok = len(rets) == 1 and isinstance(rets[0].value, ast.Call) and norm_src(rets[0].value.func) == "func" \
        and [norm_src(a) for a in rets[0].value.args] == params and not rets[0].value.keywords
    rebound = [n for n in ast.walk(ig) if isinstance(n, ast.Assign) and any(isinstance(t, ast.Name) and t.id in params for t in n.targets)]
    if ok and not rebound:
        ctx.ok("C03-e", "mlcl.intercept_grads forwards (X, y_pred, gradient) to the wrapped _compute_grads")
    else:
        ctx.violation("C03-e", mu.relpath, "add_mlcl_constraint.intercept_grads", norm_src(rets[0]) if rets else "return",
                      "the decorated _compute_grads does not forward its three arguments unchanged and in order", line=ig.lineno)


# ------------------------------------------------------------------------------------------- controls
def controls(pm, tier):
    out = []

    def mlp_cross(pm_):
        ci = pm_.classes["MLPModel"]
        f = ci.methods["_compute_grads"]
        for n in ast.walk(f):
            if isinstance(n, ast.Attribute) and attr_chain(n) == "self.W2_.T":
                return {ci.unit.relpath: replace_node(ci.unit, n, "W2_grad.T")}
        return None
    out.append({"name": "MLP hidden gradient built from W2_grad", "rule": "C03-a", "also": ("C03-b",), "apply": mlp_cross})

    def active_set(pm_):
        u_ = pm_.unit("gemclus.sparse._mlp_sparse")
        a_ = "        W_skip_grad = X.T @ tau_hat_grad"
        if a_ not in u_.src:
            return None
        b_ = "        sel = self.get_selection()\n        W_skip_grad = np.zeros_like(self.W_skip_)\n        W_skip_grad[sel] = X[:, sel].T @ tau_hat_grad"
        return {u_.relpath: u_.src.replace(a_, b_, 1)}
    out.append({"name": "skip-weight gradient computed on the selected features only", "rule": "C03-o", "apply": active_set})

    def drop_relu(pm_):
        ci = pm_.classes["SparseMLPModel"]
        f = ci.methods["_compute_grads"]
        for n in ast.walk(f):
            if isinstance(n, ast.AugAssign) and "self.H_ > 0" in norm_src(n):
                return {ci.unit.relpath: replace_node(ci.unit, n, "pass")}
        return None
    out.append({"name": "SparseMLP back-propagation without the ReLU mask", "rule": "C03-b", "apply": drop_relu})

    def wrong_axis(pm_):
        ci = pm_.classes["LinearModel"]
        f = ci.methods["_compute_grads"]
        for n in ast.walk(f):
            if isinstance(n, ast.Call) and norm_src(n) == "(y_pred * gradient).sum(1, keepdims=True)":
                return {ci.unit.relpath: replace_node(ci.unit, n, "(y_pred * gradient).sum(0, keepdims=True)")}
        return None
    out.append({"name": "softmax Jacobian summed over samples instead of clusters", "rule": "C03-d", "apply": wrong_axis})

    def reorder(pm_):
        ci = pm_.classes["MLPModel"]
        f = ci.methods["_compute_grads"]
        for n in ast.walk(f):
            if isinstance(n, ast.List) and len(n.elts) == 4 and norm_src(n).startswith("[-W1_grad"):
                e = [norm_src(x) for x in n.elts]
                return {ci.unit.relpath: replace_node(ci.unit, n, f"[{e[0]}, {e[2]}, {e[1]}, {e[3]}]")}
        return None
    out.append({"name": "MLP gradient list reordered", "rule": "C03-c", "apply": reorder})

    def kernel_rim_rows(pm_):
        ci = pm_.classes["KernelRIM"]
        f = ci.methods["_compute_grads"]
        for n in ast.walk(f):
            if isinstance(n, ast.Attribute) and attr_chain(n) == "self._training_kernel":
                return {ci.unit.relpath: replace_node(ci.unit, n, "X")}
        return None
    out.append({"name": "KernelRIM penalty from the batch rows", "rule": "C03-c", "apply": kernel_rim_rows})

    def plus_sign(pm_):
        ci = pm_.classes["CategoricalModel"]
        f = ci.methods["_compute_grads"]
        for n in ast.walk(f):
            if isinstance(n, ast.Return) and isinstance(n.value, ast.List) and isinstance(n.value.elts[0], ast.UnaryOp):
                return {ci.unit.relpath: replace_node(ci.unit, n.value.elts[0], norm_src(n.value.elts[0].operand))}
        return None
    out.append({"name": "Categorical gradient not negated", "rule": "C03-g", "apply": plus_sign})

    def stale_batch(pm_):
        u = pm_.unit("gemclus.sparse._base_sparse")
        f = u.func("_path")
        for n in ast.walk(f):
            if isinstance(n, ast.Call) and (call_name(n) or "") == "clf._compute_grads":
                return {u.relpath: replace_node(u, n.args[0], "X")}
        return None
    out.append({"name": "_path back-propagates with the full data instead of the batch", "rule": "C03-e", "apply": stale_batch})

    def rebind(pm_):
        ci = pm_.classes["SparseLinearModel"]
        f = ci.methods["_update_weights"]
        for n in ast.walk(f):
            if isinstance(n, ast.Expr) and norm_src(n).startswith("np.copyto(self.W_"):
                return {ci.unit.relpath: replace_node(ci.unit, n, "self.W_ = new_W")}
        return None
    out.append({"name": "sparse linear weights re-bound instead of copied in place", "rule": "C03-f", "apply": rebind})

    def tmut(mod, find, repl, name):
        def apply(pm_):
            u = pm_.unit(mod)
            if find not in u.src:
                return None
            return {u.relpath: u.src.replace(find, repl, 1)}
        out.append({"name": name, "rule": "C03-j", "apply": apply})
    LIN, MLP_, CAT, SMLP = "gemclus.linear._linear_geminis", "gemclus.mlp._mlp_geminis", "gemclus.nonparametric._categorical_models", "gemclus.sparse._mlp_sparse"
    tmut(LIN, "        tau_hat_grad = y_pred * (gradient - (y_pred * gradient).sum(1, keepdims=True))  # Shape NxK\n\n        W_grad",
         "        tau_hat_grad = y_pred * (gradient - gradient.sum(1, keepdims=True))  # Shape NxK\n\n        W_grad", "softmax Jacobian without the y weights")
    tmut(LIN, "        W_grad = X.T @ tau_hat_grad\n        b_grad", "        W_grad = 2 * X.T @ tau_hat_grad\n        b_grad", "weight direction doubled")
    tmut(MLP_, "        backprop_grad *= self.H_ > 0\n", "        backprop_grad *= self.H_ >= 0\n", "ReLU derivative taken as 1 on dead units")
    tmut(MLP_, "        W2_grad = self.H_.T @ tau_hat_grad", "        W2_grad = self.H_.T @ gradient", "output layer skips the softmax Jacobian")
    tmut(MLP_, "        b1_grad = backprop_grad.sum(0, keepdims=True)", "        b1_grad = backprop_grad.mean(0, keepdims=True)", "hidden bias averaged instead of summed")
    tmut(SMLP, "        W_skip_grad = X.T @ tau_hat_grad", "        W_skip_grad = X.T @ backprop_grad @ self.W1_.T @ X.T @ tau_hat_grad * 0 + X.T @ y_pred", "skip connection direction from the predictions")
    tmut(LIN, "        gradients[0] += self.reg * 2 * self.W_", "        gradients[0] += self.reg * self.W_", "RIM penalty gradient halved")

    def kmut(find, repl, name):
        def apply(pm_):
            u = pm_.unit("gemclus.tree.douglas")
            if find not in u.src:
                return None
            return {u.relpath: u.src.replace(find, repl, 1)}
        out.append({"name": name, "rule": "C03-k", "apply": apply})
    kmut("            bin_grad /= self.temperature\n", "", "Douglas: temperature dropped from the bin gradient")
    kmut("        leaf_score_backprop = self._leaf.T @ y_pred_grad", "        leaf_score_backprop = self._leaf.T @ gradient", "Douglas: leaf scores skip the softmax Jacobian")
    kmut("            bin_grad = weighted_grad - self._all_binnings[i] * weighted_grad.sum(1, keepdims=True)", "            bin_grad = weighted_grad - self._all_binnings[i] * weighted_grad.mean(1, keepdims=True)",
         "Douglas: bin softmax backprop with a mean")
    kmut('        product = np.einsum("ij,ik->ijk", leaf_res1, leaf_res2)', '        product = leaf_res1[:, np.newaxis, :] * leaf_res2[:, :, np.newaxis]', "Douglas: Kronecker order swapped")
    out[-1]["rule"] = "C03-l"
    for find, repl, name in [
        ("            bias_grad = bin_grad.sum(0)[1:]", "            bias_grad = bin_grad.sum(0)[:-1]", "Douglas: the last bias gradient is dropped instead of the constant first one"),
        ("            cumsum_grad = -np.cumsum(bias_grad[::-1])[::-1]", "            cumsum_grad = -np.cumsum(bias_grad)", "Douglas: forward cumulative sum in the backward pass"),
        ("            cumsum_grad = -np.cumsum(bias_grad[::-1])[::-1]", "            cumsum_grad = np.cumsum(bias_grad[::-1])[::-1]", "Douglas: sign of the cut gradient"),
        ("            bias_grad = bin_grad.sum(0)[1:]", "            bias_grad = bin_grad.mean(0)[1:]", "Douglas: bias gradient averaged over the samples"),
        ("np.concatenate([np.zeros(1), -sorted_cut_points])", "np.concatenate([-sorted_cut_points, np.zeros(1)])", "Douglas: padding on the wrong side in the forward pass only"),
    ]:
        kmut(find, repl, name)
        out[-1]["rule"] = "C03-m"
    kmut("        binning_backprop = y_pred_grad @ self.leaf_scores_.T", "        binning_backprop = gradient @ self.leaf_scores_.T", "Douglas: leaf gradient skips the softmax Jacobian")
    for find, repl, name in [
        ("if i != j])", "if i == j])", "Douglas: marginal over the feature's own axis"),
        ("        binning_backprop *= self._leaf.reshape(axes_for_reshape)\n", "", "Douglas: leaf memberships dropped from the product rule"),
        ("[len(x[1]) + 1 for x in self.cut_points_list_])", "[len(x[1]) + 1 for x in self.cut_points_list_[::-1]])", "Douglas: leaf axis un-flattened in reverse feature order"),
        ("axes_for_sum = tuple([1 + j for j", "axes_for_sum = tuple([2 + j for j", "Douglas: axes shifted by one"),
    ]:
        kmut(find, repl, name)
        out[-1]["rule"] = "C03-n"
    kmut("            cut_grad = cumsum_grad[np.argsort(self._all_orders[i])]", "            cut_grad = np.empty_like(cumsum_grad)\n            cut_grad[np.argsort(self._all_orders[i])] = cumsum_grad",
         "Douglas: scatter through the inverse permutation (= gather by the forward one)")
    out[-1]["rule"] = "C03-i"
    return out
