"""C20 - synthetic data generators: seeding, shapes, label alignment, parameter kinds, rejection guards."""
import ast

from ..pm import AnalysisError, norm_src, func_params
from ..flow import CFG, ENTRY, attr_chain
from ..astutil import call_name, kwarg
from ..e6_algebra import to_rat, Poly
from ..e3_axes import Interp, Arr, Num, Ax, Lst, Tup, NoneV, Obj, is_top
from ..scenarios import nonusage, dedup_events
from .c12 import DRAWS, rng_origin, _cfg_stmt, _enclosing_def

PROP = "C20"
EXPLANATION = (
    "(a) RNG discipline: each generator function derives one generator from check_random_state(random_state), every draw's "
    "receiver has that single reaching definition, nested generator calls receive the generator object, no global draws; (b) "
    "documented shapes by named-axis interpretation with symbolic n, K components and d dimensions: draw_gmm -> ([n,d],[n]), "
    "multivariate_student_t -> [n,d], gstm -> ([n,2],[n]), celeux_one -> ([n,5+p],[n]), celeux_two -> ([n,14],[n]); (c) label "
    "alignment: row i is taken from the draws of component y[i] (index spaces: the list of per-component draws is indexed by "
    "a component index, each draw by a sample index), labels index the component axis; (d) parameter kinds: a value "
    "documented as a (co)variance reaches the standard-deviation slot of Generator.normal only through sqrt, and the covariance "
    "slot of multivariate_normal unchanged; (e) each documented rejection is a raise that dominates the first draw. Not "
    "decided: distributional correctness (means, covariances, proportions within sampling error).")
ASSUMPTIONS = ["numpy draw signatures: normal(loc, scale=std, size), multivariate_normal(mean, cov, size), choice(a, size, p)"]
DM = "gemclus.data.synthetic_data"
FUNCS = ["draw_gmm", "multivariate_student_t", "gstm", "celeux_one", "celeux_two"]


def student_construction(pm, ctx, u):
    from .. import e8_index as X8
    from ..e8_index import Poly, Unsupported, mk_var
    from ..e8_numpy import TermInterp, input_array, TArr, _MISSING, ph
    f = u.func("multivariate_student_t")
    params = func_params(f)
    if params[:4] != ["n", "loc", "scale", "df"]:
        ctx.unrecognised("C20-f", "multivariate_student_t", f"signature {params}")
        return
    X8.POSITIVE_VARS.add("u_chi2")
    draws = []

    def hook(I, c, fn):
        name = fn.split(".")[-1]
        if fn == "check_array":
            return I.ev(c.args[0])
        if fn == "check_random_state":
            return "RNG"
        if isinstance(c.func, ast.Attribute) and isinstance(c.func.value, ast.Name) and I.env.get(c.func.value.id) == "RNG":
            args = [I.ev(a) for a in c.args]
            kw = {k.arg: I.ev(k.value) for k in c.keywords}
            draws.append((name, args, kw, c))
            if name == "multivariate_normal":
                return input_array("z", ["N", "D"])
            if name == "chisquare":
                size = args[1] if len(args) > 1 else kw.get("size")
                if isinstance(size, (tuple, list)) and len(size) == 2:
                    return input_array("u_chi2", ["N", "D"])          # one draw per coordinate: judged below
                return input_array("u_chi2", ["N"])
            raise Unsupported("draw " + name)
        return _MISSING
    env = {"n": Poly.sym("N"), "loc": input_array("loc", ["D"]), "scale": input_array("scale", ["D", "D"]), "df": TArr((), Poly.sym("df")), "random_state": None}
    I = TermInterp(env, {})
    I.call_hook = hook
    site = "multivariate_student_t: construction"
    try:
        res = I.run(f)
    except Unsupported as e:
        ctx.unrecognised("C20-f", site, f"outside the translated subset: {e}")
        return
    if not isinstance(res, TArr) or tuple(res.shape) != ("N", "D"):
        ctx.unrecognised("C20-f", site, f"result {res!r}")
        return
    from ..e8_index import mk_pow
    from fractions import Fraction
    ref = mk_pow(Poly.sym("df"), Fraction(1, 2)) * mk_pow(Poly.atom(mk_var("u_chi2", (ph("N", 0),))), Fraction(-1, 2)) * Poly.atom(mk_var("z", (ph("N", 0), ph("D", 1)))) \
        + Poly.atom(mk_var("loc", (ph("D", 1),)))
    if res.term == ref:
        ctx.ok("C20-f", site, "X[i] = loc + sqrt(df / u[i]) * z[i]")
    else:
        ctx.violation("C20-f", u.relpath, "multivariate_student_t", "return X", f"the samples are {res.term!r}, not loc + sqrt(df/u) * z: they do not follow the "
                      f"Student-t distribution with df degrees of freedom", line=f.lineno, site=site)
    # the two draws
    mvn = [d for d in draws if d[0] == "multivariate_normal"]
    chi = [d for d in draws if d[0] == "chisquare"]
    site = "multivariate_student_t: Gaussian draw"
    if len(mvn) == 1:
        name, args, kw, c = mvn[0]
        mean = args[0] if args else kw.get("mean")
        cov = args[1] if len(args) > 1 else kw.get("cov")
        size = args[2] if len(args) > 2 else kw.get("size")
        okm = isinstance(mean, TArr) and mean.term.is_zero() and tuple(mean.shape) == ("D",)
        okc = isinstance(cov, TArr) and cov.term == input_array("scale", ["D", "D"]).term
        oks = isinstance(size, Poly) and size == Poly.sym("N")
        if okm and okc and oks:
            ctx.ok("C20-f", site, "z ~ N(0, scale), n rows")
        else:
            ctx.violation("C20-f", u.relpath, "multivariate_student_t", norm_src(c)[:120], "the Gaussian factor is not n draws of N(0, scale)" +
                          ("" if okm else " (mean not zero)") + ("" if okc else " (covariance is not the scale matrix)") + ("" if oks else " (size is not n)"), line=c.lineno, site=site)
    else:
        ctx.unrecognised("C20-f", site, f"{len(mvn)} multivariate normal draws")
    site = "multivariate_student_t: chi-square draw"
    if len(chi) == 1:
        name, args, kw, c = chi[0]
        dfa = args[0] if args else kw.get("df")
        size = args[1] if len(args) > 1 else kw.get("size")
        okd = isinstance(dfa, TArr) and dfa.term == Poly.sym("df")
        oks = isinstance(size, Poly) and size == Poly.sym("N")
        if okd and isinstance(size, (tuple, list)) and len(size) >= 2:
            ctx.violation("C20-f", u.relpath, "multivariate_student_t", norm_src(c)[:120], "one chi-square variable is drawn per COORDINATE: the coordinates of a sample are then scaled "
                          "independently and the joint law is not the multivariate Student-t (its off-diagonal covariances shrink)", line=c.lineno, site=site)
        elif okd and oks:
            ctx.ok("C20-f", site, "u ~ chi2(df), one per sample")
        else:
            ctx.violation("C20-f", u.relpath, "multivariate_student_t", norm_src(c)[:120], "the mixing variable is not one chi-square(df) draw per sample", line=c.lineno, site=site)
    else:
        ctx.unrecognised("C20-f", site, f"{len(chi)} chi-square draws")


def dependence_structure(pm, ctx, u):
    """data-flow of the returned columns of celeux_one / celeux_two (names resolved through unique definitions)"""
    from ..match import resolve_expr, cfg_node
    for fn, informative, dependents, noises in (("celeux_one", "good_variables", [], ["noise"]), ("celeux_two", "good_variables", ["X3_11"], ["X12_14"])):
        f = u.func(fn)
        cfg = CFG(f)
        defs = {s_.targets[0].id: s_ for s_ in f.body if isinstance(s_, ast.Assign) and len(s_.targets) == 1 and isinstance(s_.targets[0], ast.Name)}
        gm = [s_ for s_ in f.body if isinstance(s_, ast.Assign) and isinstance(s_.value, ast.Call) and call_name(s_.value) == "draw_gmm" and isinstance(s_.targets[0], ast.Tuple)]
        site = f"{fn}: informative variables and labels come from one draw_gmm call"
        if len(gm) != 1 or [norm_src(e) for e in gm[0].targets[0].elts][:1] != [informative]:
            ctx.unrecognised("C20-h", site, "draw_gmm call")
            continue
        ylab = norm_src(gm[0].targets[0].elts[1])
        rets = [n for n in ast.walk(f) if isinstance(n, ast.Return)]
        if len(rets) == 1 and isinstance(rets[0].value, ast.Tuple) and norm_src(rets[0].value.elts[1]) == ylab:
            ctx.ok("C20-h", site, f"({informative}, {ylab})")
        else:
            ctx.violation("C20-h", u.relpath, fn, norm_src(rets[0])[:100] if rets else "return", "the returned labels are not those of the draw that produced the informative variables",
                          line=f.lineno, site=site)

        def deps(name, seen=None):
            seen = seen or set()
            if name in seen or name not in defs:
                return {name}
            seen.add(name)
            out = {name}
            for n in ast.walk(defs[name].value):
                if isinstance(n, ast.Name) and isinstance(n.ctx, ast.Load):
                    out |= deps(n.id, seen)
            return out
        for nv in noises:
            site = f"{fn}: {nv} is independent of the labels"
            if nv not in defs:
                ctx.unrecognised("C20-h", site, f"no variable {nv}")
                continue
            d = deps(nv)
            if informative in d or ylab in d:
                ctx.violation("C20-h", u.relpath, fn, norm_src(defs[nv])[:140], f"the noise variables {nv} are computed from {'the informative variables' if informative in d else 'the labels'}",
                              line=defs[nv].lineno, site=site)
            else:
                ctx.ok("C20-h", site)
        for dv in dependents:
            site = f"{fn}: {dv} is affine in the informative variables"
            if dv not in defs:
                ctx.unrecognised("C20-h", site, f"no variable {dv}")
                continue
            from ..pm import canon_node
            val = canon_node(defs[dv].value)
            terms = []

            def flat(e):
                if isinstance(e, ast.BinOp) and isinstance(e.op, ast.Add):
                    flat(e.left)
                    flat(e.right)
                else:
                    terms.append(e)
            flat(val)
            lin = [t for t in terms if isinstance(t, ast.BinOp) and isinstance(t.op, ast.MatMult) and norm_src(t.left) == informative]
            others = [t for t in terms if t not in lin]
            if len(lin) == 1 and not any(informative in {n.id for n in ast.walk(t) if isinstance(n, ast.Name)} for t in others) and \
                    any(isinstance(t, ast.Name) and "noise" in deps(t.id) | {t.id} or (isinstance(t, ast.Name) and any(
                        isinstance(c, ast.Call) and isinstance(c.func, ast.Attribute) and c.func.attr in DRAWS for c in ast.walk(defs[t.id].value))) for t in others if isinstance(t, ast.Name) and t.id in defs):
                ctx.ok("C20-h", site, f"offset + {informative} @ {norm_src(lin[0].right)} + noise")
            elif not lin:
                ctx.violation("C20-h", u.relpath, fn, norm_src(defs[dv])[:140], f"{dv} does not contain the linear term {informative} @ B: the dependent variables no longer depend "
                              f"linearly on the informative ones", line=defs[dv].lineno, site=site)
            else:
                ctx.unrecognised("C20-h", site, f"`{norm_src(val)[:80]}`")
        # returned matrix starts with the informative variables
        site = f"{fn}: the informative variables are the first columns"
        if len(rets) == 1 and isinstance(rets[0].value, ast.Tuple):
            x = rets[0].value.elts[0]
            if isinstance(x, ast.Call) and (call_name(x) or "").split(".")[-1] in ("concatenate", "hstack") and x.args and isinstance(x.args[0], (ast.List, ast.Tuple)) \
                    and x.args[0].elts and norm_src(x.args[0].elts[0]) == informative:
                ctx.ok("C20-h", site)
            else:
                ctx.unrecognised("C20-h", site, norm_src(x)[:60])


def _int_eval(e, env):
    """integer value of an arithmetic expression over n (//, *, +, -)"""
    if isinstance(e, ast.Constant) and isinstance(e.value, int):
        return e.value
    if isinstance(e, ast.Name) and e.id in env:
        return env[e.id]
    if isinstance(e, ast.BinOp):
        a, b = _int_eval(e.left, env), _int_eval(e.right, env)
        return {ast.Add: lambda: a + b, ast.Sub: lambda: a - b, ast.Mult: lambda: a * b, ast.FloorDiv: lambda: a // b}[type(e.op)]()
    if isinstance(e, ast.Call) and call_name(e) == "int" and len(e.args) == 1:
        return int(_num_eval(e.args[0], env))
    raise ValueError(norm_src(e))


def _num_eval(e, env=None):
    """value of a constant arithmetic expression (numbers, + - * /, unary minus, np.sqrt)"""
    import math
    env = env or {}
    if isinstance(e, ast.Constant) and isinstance(e.value, (int, float)):
        return float(e.value)
    if isinstance(e, ast.Name) and e.id in env:
        return float(env[e.id])
    if isinstance(e, ast.UnaryOp) and isinstance(e.op, ast.USub):
        return -_num_eval(e.operand, env)
    if isinstance(e, ast.BinOp) and isinstance(e.op, (ast.Add, ast.Sub, ast.Mult, ast.Div)):
        a, b = _num_eval(e.left, env), _num_eval(e.right, env)
        return {ast.Add: a + b, ast.Sub: a - b, ast.Mult: a * b, ast.Div: a / b if b else float("nan")}[type(e.op)]
    if isinstance(e, ast.Call) and call_name(e) in ("np.sqrt", "math.sqrt") and len(e.args) == 1:
        return math.sqrt(_num_eval(e.args[0], env))
    raise ValueError(norm_src(e))


def _call_arg(u, call, pos, name):
    """the argument of a call of a generator of this module, given positionally or by keyword"""
    if len(call.args) > pos:
        return call.args[pos]
    for k in call.keywords:
        if k.arg == name:
            return k.value
    return None


def sizes_and_rotations(pm, ctx, u):
    import math
    f = u.func("gstm")
    defs = {s_.targets[0].id: s_ for s_ in f.body if isinstance(s_, ast.Assign) and len(s_.targets) == 1 and isinstance(s_.targets[0], ast.Name)}
    gm = [c for c in ast.walk(f) if isinstance(c, ast.Call) and call_name(c) == "draw_gmm"]
    stc = [c for c in ast.walk(f) if isinstance(c, ast.Call) and call_name(c) == "multivariate_student_t"]
    site = "gstm: the two parts add up to n"
    try:
        a, b = _call_arg(u, gm[0], 0, "n"), _call_arg(u, stc[0], 0, "n")
        if a is None or b is None:
            raise IndexError("n argument")
        bad = None
        for n in range(4, 21):
            env = {"n": n}
            for name in ("n_gaussian", "n_student"):
                pass
            def val(e, depth=0):
                if isinstance(e, ast.Name) and e.id in defs and e.id != "n" and depth < 5:
                    return val(defs[e.id].value, depth + 1)
                if isinstance(e, ast.BinOp):
                    l, r = val(e.left, depth), val(e.right, depth)
                    return {ast.Add: lambda: l + r, ast.Sub: lambda: l - r, ast.Mult: lambda: l * r, ast.FloorDiv: lambda: l // r}[type(e.op)]()
                return _int_eval(e, env)
            if val(a) + val(b) != n:
                bad = (n, val(a), val(b))
                break
        if bad is None:
            ctx.ok("C20-i", site, "checked as integer formulas for n = 4..20")
        else:
            ctx.violation("C20-i", u.relpath, "gstm", f"{norm_src(a)} + {norm_src(b)}", f"for n = {bad[0]} the Gaussian part has {bad[1]} samples and the Student-t part {bad[2]}: "
                          f"{bad[1] + bad[2]} samples are returned instead of {bad[0]}", line=stc[0].lineno, site=site)
    except (IndexError, ValueError, KeyError) as e:
        ctx.unrecognised("C20-i", site, f"sample counts of the two parts ({e})")
    # rotations
    f2 = u.func("celeux_two")
    rots = [s_ for s_ in f2.body if isinstance(s_, ast.Assign) and isinstance(s_.targets[0], ast.Name) and s_.targets[0].id.startswith("rot_pi_")]
    site = "celeux_two: rotation matrices"
    if not rots:
        ctx.unrecognised("C20-i", site, "no rot_pi_<k> matrices")
        return
    orient = {}
    for s_ in rots:
        name = s_.targets[0].id
        try:
            k = int(name.rsplit("_", 1)[1])
            lst = next(n for n in ast.walk(s_.value) if isinstance(n, ast.List) and len(n.elts) == 2 and all(isinstance(x, ast.List) and len(x.elts) == 2 for x in n.elts))
            m = [[_num_eval(x) for x in row.elts] for row in lst.elts]
        except (ValueError, StopIteration, IndexError):
            ctx.unrecognised("C20-i", site, f"{name} is not a literal 2x2 matrix")
            return
        c_, s__ = math.cos(math.pi / k), math.sin(math.pi / k)
        close = lambda x, y: abs(x - y) < 1e-9
        if close(m[0][0], c_) and close(m[1][1], c_) and close(m[0][1], -s__) and close(m[1][0], s__):
            orient[name] = "+"
        elif close(m[0][0], c_) and close(m[1][1], c_) and close(m[0][1], s__) and close(m[1][0], -s__):
            orient[name] = "-"
        else:
            ctx.violation("C20-i", u.relpath, "celeux_two", norm_src(s_)[:120], f"{name} is not the rotation by pi/{k}", line=s_.lineno, site=site)
            return
    if len(set(orient.values())) == 1:
        ctx.ok("C20-i", site, f"{sorted(orient)} are rotations by their angle, same orientation")
    else:
        ctx.violation("C20-i", u.relpath, "celeux_two", "; ".join(f"{k}: {v}" for k, v in sorted(orient.items())), f"the rotation matrices do not share one orientation ({orient}): "
                      f"one of them rotates by the opposite angle, which flips the sign of the off-diagonal noise covariance it generates", line=rots[0].lineno, site=site)


def gstm_labels(pm, ctx, u):
    f = u.func("gstm")
    locs = [s_ for s_ in f.body if isinstance(s_, ast.Assign) and isinstance(s_.targets[0], ast.Name) and s_.targets[0].id == "locations"]
    site = "gstm: label of the Student-t component"
    if not locs:
        ctx.unrecognised("C20-g", site, "no `locations` table")
        return
    lists = [n for n in ast.walk(locs[0].value) if isinstance(n, ast.List) and n.elts and all(isinstance(e, ast.List) for e in n.elts)]
    if not lists:
        ctx.unrecognised("C20-g", site, "locations is not a literal table")
        return
    nloc = len(lists[0].elts)
    st_call = [c for c in ast.walk(f) if isinstance(c, ast.Call) and call_name(c) == "multivariate_student_t"]
    gm_call = [c for c in ast.walk(f) if isinstance(c, ast.Call) and call_name(c) == "draw_gmm"]
    if len(st_call) != 1 or len(gm_call) != 1:
        ctx.unrecognised("C20-g", site, "calls of draw_gmm / multivariate_student_t")
        return

    def row_index(e):
        if isinstance(e, ast.Subscript) and norm_src(e.value) == "locations":
            i = e.slice
            if isinstance(i, ast.UnaryOp) and isinstance(i.op, ast.USub) and isinstance(i.operand, ast.Constant):
                return nloc - i.operand.value
            if isinstance(i, ast.Constant) and isinstance(i.value, int):
                return i.value if i.value >= 0 else nloc + i.value
        return None

    def row_range(e):
        if isinstance(e, ast.Subscript) and norm_src(e.value) == "locations" and isinstance(e.slice, ast.Slice) and e.slice.step is None:
            def val(x, d):
                if x is None:
                    return d
                if isinstance(x, ast.Constant):
                    return x.value if x.value >= 0 else nloc + x.value
                if isinstance(x, ast.UnaryOp) and isinstance(x.op, ast.USub) and isinstance(x.operand, ast.Constant):
                    return nloc - x.operand.value
                return None
            lo, hi = val(e.slice.lower, 0), val(e.slice.upper, nloc)
            if lo is not None and hi is not None:
                return list(range(lo, hi))
        return None
    k_student = row_index(_call_arg(u, st_call[0], 1, "loc")) if _call_arg(u, st_call[0], 1, "loc") is not None else None
    rows_gauss = row_range(_call_arg(u, gm_call[0], 1, "loc")) if _call_arg(u, gm_call[0], 1, "loc") is not None else None
    # the label constant: y = concatenate([y_gaussian, np.ones(n_student) * c])
    ys = [s_ for s_ in f.body if isinstance(s_, ast.Assign) and isinstance(s_.targets[0], ast.Name) and s_.targets[0].id == "y"]
    label = None
    if ys:
        for n in ast.walk(ys[0].value):
            if isinstance(n, ast.BinOp) and isinstance(n.op, ast.Mult):
                for a, b in ((n.left, n.right), (n.right, n.left)):
                    if isinstance(a, ast.Call) and (call_name(a) or "").endswith("ones") and isinstance(b, ast.Constant) and isinstance(b.value, (int, float)):
                        label = b.value
            if isinstance(n, ast.Call) and (call_name(n) or "").endswith("full") and len(n.args) >= 2 and isinstance(n.args[1], ast.Constant):
                label = n.args[1].value
    if k_student is None or rows_gauss is None or label is None:
        ctx.unrecognised("C20-g", site, f"student row {k_student}, gaussian rows {rows_gauss}, label {label}")
        return
    if rows_gauss != list(range(len(rows_gauss))):
        ctx.violation("C20-g", u.relpath, "gstm", norm_src(gm_call[0])[:120], f"the Gaussian components use rows {rows_gauss} of the table but draw_gmm labels them 0..{len(rows_gauss) - 1}",
                      line=gm_call[0].lineno, site="gstm: Gaussian labels")
    else:
        ctx.ok("C20-g", "gstm: Gaussian labels index their rows of the location table", f"rows {rows_gauss}")
    if label == k_student and k_student not in rows_gauss:
        ctx.ok("C20-g", site, f"label {label} = row of its location, not a Gaussian label")
    else:
        ctx.violation("C20-g", u.relpath, "gstm", norm_src(ys[0])[:140], f"the Student-t samples are drawn around location row {k_student} but labelled {label}"
                      + (" (a Gaussian component's label)" if label in rows_gauss else ""), line=ys[0].lineno, site=site)


def run(pm, ctx):
    u = pm.unit(DM)
    ctx.rule("C20-a", "identical integer seeds must give identical output: all randomness flows from one seeded generator", floor=10)
    ctx.rule("C20-b", "returned arrays have the documented shapes", floor=5)
    ctx.rule("C20-c", "each sample is drawn from the component named by its label", floor=2)
    ctx.rule("C20-d", "a documented variance must not be used as a standard deviation", floor=2)
    ctx.rule("C20-e", "parameter sets that do not describe a mixture are rejected before sampling", floor=6)
    ctx.rule("C20-f", "multivariate_student_t builds loc + sqrt(df / u) * z with z ~ N(0, scale) and u ~ chi2(df): the construction that defines "
             "the multivariate Student-t with df degrees of freedom", floor=3)
    student_construction(pm, ctx, u)
    ctx.rule("C20-g", "gstm: the Student-t samples carry the index of the location they were drawn around, distinct from the Gaussian labels", floor=2)
    gstm_labels(pm, ctx, u)
    ctx.rule("C20-i", "gstm returns exactly n samples (Gaussian part + Student-t part = n for every n); the rotation matrices of celeux_two are rotations by the "
             "angle their name states, all with the same orientation", floor=2)
    sizes_and_rotations(pm, ctx, u)
    ctx.rule("C20-h", "informative variables come from the labelled mixture, dependent variables are affine in them plus noise, noise variables "
             "do not depend on the labels", floor=4)
    dependence_structure(pm, ctx, u)
    # ------------------------------------------------------------------ a
    for fn in FUNCS:
        f = u.func(fn)
        cfg = CFG(f)
        rd = cfg.reaching()
        gens = [s for s in f.body if isinstance(s, ast.Assign) and norm_src(s.value) == "check_random_state(random_state)"]
        site = f"{fn}: generator"
        if len(gens) != 1 or not isinstance(gens[0].targets[0], ast.Name):
            ctx.violation("C20-a", u.relpath, fn, "check_random_state", "the function does not derive exactly one generator from its random_state argument", line=f.lineno, site=site)
            continue
        g = gens[0].targets[0].id
        ctx.ok("C20-a", site, f"{g} = check_random_state(random_state)")
        for c in ast.walk(f):
            if isinstance(c, ast.Call) and isinstance(c.func, ast.Attribute) and c.func.attr in DRAWS and isinstance(c.func.value, ast.Name) and c.func.value.id not in ("np", "numpy"):
                st = _cfg_stmt(cfg, c)
                site = f"{fn}: {norm_src(c.func)}"
                if c.func.value.id == g and rd[st].get(g) == frozenset([gens[0]]):
                    ctx.ok("C20-a", site)
                else:
                    ctx.violation("C20-a", u.relpath, fn, norm_src(_stmt(c))[:160], f"the draw does not use the function's seeded generator {g}", line=c.lineno, site=site)
            if isinstance(c, ast.Call) and isinstance(c.func, ast.Name) and c.func.id in FUNCS:
                callee = u.func(c.func.id)
                ps = func_params(callee)
                idx = ps.index("random_state")
                arg = c.args[idx] if len(c.args) > idx else kwarg(c, "random_state")
                site = f"{fn}: nested {c.func.id}"
                st = _cfg_stmt(cfg, c)
                if isinstance(arg, ast.Name) and arg.id == g and rd[st].get(g) == frozenset([gens[0]]):
                    ctx.ok("C20-a", site, "receives the generator object (its state advances)")
                else:
                    ctx.violation("C20-a", u.relpath, fn, norm_src(_stmt(c))[:160], f"the nested generator call is not given the seeded generator ({norm_src(arg) if arg is not None else 'nothing'}): "
                                  f"the same seed would be reused or the global state used", line=c.lineno, site=site)
    alias = [k for k, (m, s) in u.imports.items() if m == "numpy" and s is None]
    glob = [n for n in ast.walk(u.tree) if isinstance(n, ast.Call) and (attr_chain(n.func) or "").split(".")[:2] == [alias[0] if alias else "np", "random"]]
    if glob:
        ctx.violation("C20-a", u.relpath, "<module>", norm_src(glob[0])[:120], "draw from numpy's global generator", line=glob[0].lineno, site="global draws")
    else:
        ctx.ok("C20-a", "no global numpy draws in the data module")

    # ------------------------------------------------------------------ b, c (E3)
    n, Kc, d = Ax("n"), Ax("Kc"), Ax("d")
    rng = Obj(None, kind="rng")

    def call(fn, args):
        I = Interp(pm)
        I.generic_dims = True
        f = u.func(fn)
        res = I.call_function(u, f, args, {}, qual=fn)
        return I, res
    cases = [
        ("draw_gmm", [Num("i", dimof=n), Arr([Kc, d]), Arr([Kc, d, d]), Arr([Kc]), rng], lambda r: isinstance(r, Tup) and _ax(r.items[0]) == ["n", "d"] and _ax(r.items[1]) == ["n"]),
        ("draw_gmm", [Num("i", dimof=n), Arr([Kc, Ax(1)]), Arr([Kc, Ax(1)]), Arr([Kc]), rng], lambda r: isinstance(r, Tup) and _ax(r.items[0]) == ["n", 1] and _ax(r.items[1]) == ["n"]),
        ("multivariate_student_t", [Num("i", dimof=n), Arr([d]), Arr([d, d]), Num("f"), rng], lambda r: _ax(r) == ["n", "d"]),
        ("gstm", [Num("i", dimof=n), Num("f"), Num("f"), rng], lambda r: isinstance(r, Tup) and len(_ax(r.items[0]) or []) == 2 and _ax(r.items[0])[1] == 2 and len(_ax(r.items[1]) or []) == 1),
        ("celeux_one", [Num("i", dimof=n), Num("i", dimof=Ax("p")), Num("f"), rng], lambda r: isinstance(r, Tup) and _ax(r.items[0]) == ["n", "p+5"] and _ax(r.items[1]) == ["n"]),
        ("celeux_two", [Num("i", dimof=n), rng], lambda r: isinstance(r, Tup) and _ax(r.items[0]) == ["n", 14] and _ax(r.items[1]) == ["n"]),
    ]
    for fn, args, pred in cases:
        I, res = call(fn, args)
        site = f"{fn}: shapes" + (" (1-D)" if fn == "draw_gmm" and args[1].axes[1].one else "")
        evs = [e for e in dedup_events(nonusage(I.events)) if e.kind in ("axis-mismatch", "index-space")]
        for e in evs:
            st = e.stmt()
            rid = "C20-c" if e.kind == "index-space" else "C20-b"
            ctx.violation(rid, u.relpath, e.func, norm_src(st)[:160] if st is not None else "?", f"[{e.kind}] {e.msg}", line=getattr(e.node, "lineno", None), site=site)
        try:
            ok = pred(res)
        except Exception:
            ok = False
        if ok and not evs:
            ctx.ok("C20-b", site, repr(res))
        elif not evs:
            tops = [t for t in I.top_log if t[1] == fn]
            if is_top(res) or tops or (isinstance(res, Tup) and any(is_top(x) for x in res.items)) or "?" in repr(res):
                # (an axis of unknown extent - e.g. produced by reshape(-1) - is lack of precision of the abstract value, not a wrong shape)
                ctx.undecided_site("C20-b", site, f"abstract result {res!r}; unknown: {norm_src(tops[0][2])[:60] if tops else ''}")
            else:
                ctx.violation("C20-b", u.relpath, fn, "return", f"the returned value has axes {res!r}, not the documented shape", line=u.func(fn).lineno, site=site)
        if fn == "draw_gmm":
            y = res.items[1] if isinstance(res, Tup) and len(res.items) == 2 else None
            if isinstance(y, Arr) and y.space is not None and y.space.name == "Kc":
                ctx.ok("C20-c", "draw_gmm: labels index the component axis", repr(y))
            else:
                ctx.violation("C20-c", u.relpath, "draw_gmm", "return", f"labels are {y!r}, not indices into the components", line=u.func(fn).lineno, site="draw_gmm: labels")
            n_checks = [c for c in I.index_checks if c[2] == "draw_gmm"]
            if n_checks and all(ok_ for _, ok_, _ in n_checks) and not [e for e in evs if e.kind == "index-space"]:
                ctx.ok("C20-c", "draw_gmm: row i taken from the draws of component y[i]", f"{len(n_checks)} typed subscripts")
            elif not [e for e in evs if e.kind == "index-space"]:
                ctx.undecided_site("C20-c", "draw_gmm: gather", "no typed subscript was judged")
    # the gather statement itself
    f = u.func("draw_gmm")
    gather = [s for s in f.body if isinstance(s, ast.Assign) and isinstance(s.value, ast.ListComp) and "enumerate(y)" in norm_src(s.value)]
    if gather:
        comp = gather[0].value
        tg = [norm_src(e) for e in comp.generators[0].target.elts] if isinstance(comp.generators[0].target, ast.Tuple) else []
        import re as _re
        m_ = _re.match(r"^([A-Za-z_]\w*)\[" + _re.escape(tg[1]) + r"\]\[" + _re.escape(tg[0]) + r"\]", str(norm_src(comp.elt))) if len(tg) == 2 else None
        # the list indexed by the component: any local other than the labels (its element type - one array of n draws per component - is judged by the
        # typed subscripts above)
        if m_ is not None and m_.group(1) not in ("y", tg[0], tg[1]):
            ctx.ok("C20-c", "draw_gmm: X[k][i] for (i, k) in enumerate(y)")
        else:
            ctx.violation("C20-c", u.relpath, "draw_gmm", norm_src(gather[0])[:160], "row i is not taken from the draw list of component y[i]", line=gather[0].lineno,
                          site="draw_gmm: gather statement")

    # ------------------------------------------------------------------ d
    cov_params = {"draw_gmm": {"scale"}, "multivariate_student_t": {"scale"}}
    for fn in FUNCS:
        f = u.func(fn)
        cfg = CFG(f)
        for c in ast.walk(f):
            if not (isinstance(c, ast.Call) and isinstance(c.func, ast.Attribute) and c.func.attr in ("normal", "multivariate_normal")):
                continue
            slot = c.args[1] if len(c.args) > 1 else kwarg(c, "scale" if c.func.attr == "normal" else "cov")
            if slot is None:
                continue
            st = _cfg_stmt(cfg, c)
            names = [x.id for x in ast.walk(slot) if isinstance(x, ast.Name)]
            stmts, inputs = cfg.backward_slice(st, names)
            from_cov = bool((set(names) | inputs) & cov_params.get(fn, set()))
            site = f"{fn}: {c.func.attr}(…, {norm_src(slot)[:30]})"
            has_sqrt = any(_is_sqrt(x) for x in ast.walk(slot)) or any(_is_sqrt(x) for s in stmts for x in ast.walk(s))
            if c.func.attr == "normal":
                if from_cov and not has_sqrt:
                    ctx.violation("C20-d", u.relpath, fn, norm_src(_stmt(c))[:160], f"the documented variance `{norm_src(slot)}` is passed as the standard deviation of "
                                  f"Generator.normal without a square root", line=c.lineno, site=site)
                else:
                    ctx.ok("C20-d", site, "standard deviation = sqrt(variance)" if from_cov else "not a documented variance")
            else:
                if has_sqrt and from_cov:
                    ctx.violation("C20-d", u.relpath, fn, norm_src(_stmt(c))[:160], "a square root of the covariance is passed as the covariance", line=c.lineno, site=site)
                else:
                    ctx.ok("C20-d", site, "covariance slot receives the covariance")

    # ------------------------------------------------------------------ e
    f = u.func("draw_gmm")
    cfg = CFG(f)
    first_draw = next((s for s in cfg.nodes if any(isinstance(c, ast.Call) and isinstance(c.func, ast.Attribute) and c.func.attr in DRAWS for e in cfg.header_exprs(s) for c in ast.walk(e))), None)
    if first_draw is None:
        raise AnalysisError("anchor vanished: draws of draw_gmm")
    raising = [s for s in cfg.nodes if isinstance(s, ast.If) and s.body and isinstance(s.body[-1], ast.Raise)]
    sem = [(s_, _guard_semantics(s_.test)) for s_ in raising]
    need = {
        "components of loc vs scale": ("ne", frozenset(["K", "scale0"])),
        "square covariances": ("ne-or", frozenset([frozenset(["d", "scale1"]), frozenset(["d", "scale2"])])),
        "components of loc vs pvals": ("ne", frozenset(["K", "pvals0"])),
        "positive proportions": ("some-bad", "pvals<=0"),
        "normalised proportions": ("sum-ne-1", "pvals"),
    }
    for name, key in need.items():
        hit = [s_ for s_, k in sem if k and k[:2] == key]
        weak = [s_ for s_, k in sem if k and k[0] == "all-bad" and key[0] == "some-bad" and k[1] == key[1]]
        site = f"draw_gmm: rejects {name}"
        if hit and (cfg.dominates(hit[0], first_draw) or (name == "square covariances" and all(cfg.dominates(p, first_draw) for p, _ in cfg.control_conditions(hit[0])))):
            ctx.ok("C20-e", site)
        elif weak:
            ctx.violation("C20-e", u.relpath, "draw_gmm", norm_src(weak[0].test), f"`{norm_src(weak[0].test)}` rejects only when ALL entries are invalid: a single invalid entry is accepted",
                          line=weak[0].lineno, site=site)
        elif name == "normalised proportions" and [s_ for s_, k in sem if k and k[0] == "sum-one-sided"]:
            o_ = [s_ for s_, k in sem if k and k[0] == "sum-one-sided"][0]
            ctx.violation("C20-e", u.relpath, "draw_gmm", norm_src(o_.test), f"`{norm_src(o_.test)}` rejects a sum of the proportions on one side of 1 only: proportions whose sum lies on "
                          "the other side (e.g. [0.25, 0.25, 0.25]) do not describe a mixture and are accepted", line=o_.lineno, site=site)
        elif hit:
            ctx.violation("C20-e", u.relpath, "draw_gmm", name, f"the check for {name} does not precede the first draw", line=hit[0].lineno, site=site)
        else:
            rel = {"components of loc vs scale": {"scale"}, "square covariances": {"scale"}, "components of loc vs pvals": {"pvals"},
                   "positive proportions": {"pvals"}, "normalised proportions": {"pvals"}}[name]
            unk = [s_ for s_, k in sem if k is None and rel & {n.id for n in ast.walk(s_.test) if isinstance(n, ast.Name)}
                   and not any(isinstance(p_, ast.For) for p_ in _parents(s_))]
            if unk:
                ctx.unrecognised("C20-e", site, f"raising tests not understood: {[norm_src(x.test)[:50] for x in unk][:3]}")
            else:
                ctx.violation("C20-e", u.relpath, "draw_gmm", name, f"no raising check for {name} before the first draw", line=f.lineno, site=site)
    # per-component variance / covariance checks dominate the per-component draws of their branch
    for label, key, draw in (("non-positive variance (d == 1)", ("some-bad", "scale[k]<=0"), "normal"),
                             ("non-PSD covariance", ("some-bad", "eig<0"), "multivariate_normal")):
        chk = [s_ for s_, k in sem if k and k[:2] == key]
        weak = [s_ for s_, k in sem if k and k[0] == "all-bad" and k[1] == key[1]]
        drw = [s for s in cfg.nodes if any(isinstance(c, ast.Call) and isinstance(c.func, ast.Attribute) and c.func.attr == draw for e in cfg.header_exprs(s) for c in ast.walk(e))]
        site = f"draw_gmm: rejects {label}"
        if weak and not chk:
            ctx.violation("C20-e", u.relpath, "draw_gmm", norm_src(weak[0].test), f"`{norm_src(weak[0].test)}` rejects a covariance only when ALL its eigenvalues are negative: an "
                          f"indefinite matrix (one negative eigenvalue) is accepted and sampled from", line=weak[0].lineno, site=site)
            continue
        ok = bool(chk) and bool(drw)
        if ok:
            # the checking loop must complete before the drawing loop starts
            # (the draws may sit in a loop statement or in a comprehension; the check in a loop over all components or in one vectorised test)
            cl = next((p for p in _parents(chk[0]) if isinstance(p, ast.For)), None)
            dl = next((p for p in _parents(drw[0]) if isinstance(p, ast.For)), None) or drw[0]
            if cl is None:
                ok = cfg.dominates(chk[0], dl)
            else:
                ok = cl is not dl and cfg.dominates(cl, dl) and norm_src(cl.iter) in ("range(K)", "range(len(loc))") and not any(p is cl for p in _parents(dl))
        if ok:
            ctx.ok("C20-e", site)
        elif not chk and [s_ for s_, k in sem if k is None]:
            ctx.unrecognised("C20-e", site, "raising tests not understood")
        else:
            ctx.violation("C20-e", u.relpath, "draw_gmm", label, f"components are not all checked for {label} before any component is sampled", line=f.lineno, site=site)
    # multivariate_student_t shape check
    f2 = u.func("multivariate_student_t")
    cfg2 = CFG(f2)
    def _square_check(t):
        """scale.shape[0] != d or scale.shape[1] != d  /  scale.shape != (d, d)  (either operand order)"""
        from ..pm import canon_node
        t = canon_node(t)
        if isinstance(t, ast.Compare) and len(t.ops) == 1 and isinstance(t.ops[0], ast.NotEq):
            pair = {str(norm_src(t.left)), str(norm_src(t.comparators[0]))}
            if pair == {"scale.shape", "(d, d)"}:
                return True
        if isinstance(t, ast.BoolOp) and isinstance(t.op, ast.Or) and len(t.values) == 2:
            seen = set()
            for v in t.values:
                if isinstance(v, ast.Compare) and len(v.ops) == 1 and isinstance(v.ops[0], ast.NotEq):
                    pair = {str(norm_src(v.left)), str(norm_src(v.comparators[0]))}
                    for k in ("scale.shape[0]", "scale.shape[1]", "len(scale)"):
                        if pair == {k, "d"}:
                            seen.add("0" if k != "scale.shape[1]" else "1")
            return seen == {"0", "1"}
        return False
    r2 = [s for s in cfg2.nodes if isinstance(s, ast.If) and s.body and isinstance(s.body[-1], ast.Raise) and _square_check(s.test)]
    d2 = next((s for s in cfg2.nodes if any(isinstance(c, ast.Call) and isinstance(c.func, ast.Attribute) and c.func.attr in DRAWS for e in cfg2.header_exprs(s) for c in ast.walk(e))), None)
    if r2 and d2 is not None and cfg2.dominates(r2[0], d2):
        ctx.ok("C20-e", "multivariate_student_t: rejects inconsistent location/scale shapes")
    else:
        ctx.violation("C20-e", u.relpath, "multivariate_student_t", "shape check", "location/scale shapes are not checked before sampling", line=f2.lineno, site="student: shapes")


def _size_key(e):
    t = norm_src(e)
    return {"K": "K", "loc.shape[0]": "K", "len(loc)": "K", "scale.shape[0]": "scale0", "len(scale)": "scale0", "scale.shape[1]": "scale1", "scale.shape[2]": "scale2",
            "pvals.shape[0]": "pvals0", "len(pvals)": "pvals0", "d": "d", "loc.shape[1]": "d"}.get(t)


def _guard_semantics(t):
    """meaning of a raising test of draw_gmm -> key tuple, or None when it is not understood"""
    from ..pm import canon_node
    t = canon_node(t)
    if isinstance(t, ast.BoolOp) and isinstance(t.op, ast.And) and len(t.values) == 2:
        # `d != 1 and <test>`: the nested form `if d != 1: if <test>: raise` written as one condition
        for a_, b_ in ((t.values[0], t.values[1]), (t.values[1], t.values[0])):
            if norm_src(a_) in ("d != 1", "1 != d"):
                inner = _guard_semantics(b_)
                if inner and inner[0] == "ne-or":
                    return inner
    if isinstance(t, ast.Compare) and len(t.ops) == 1 and isinstance(t.ops[0], ast.NotEq):
        a, b = _size_key(t.left), _size_key(t.comparators[0])
        if a and b:
            return ("ne", frozenset([a, b]))
        # np.sum(pvals) != 1
        for x, y in ((t.left, t.comparators[0]), (t.comparators[0], t.left)):
            if isinstance(y, ast.Constant) and y.value == 1 and isinstance(x, ast.Call) and (call_name(x) or "").split(".")[-1] == "sum" and \
                    (x.args and norm_src(x.args[0]) == "pvals" or isinstance(x.func, ast.Attribute) and norm_src(x.func.value) == "pvals"):
                return ("sum-ne-1", "pvals")
        if isinstance(t.left, ast.Call) and (call_name(t.left) or "").split(".")[-1] in ("isclose", "allclose"):
            return None
    if isinstance(t, ast.UnaryOp) and isinstance(t.op, ast.Not) and isinstance(t.operand, ast.Call) and (call_name(t.operand) or "").split(".")[-1] in ("isclose", "allclose"):
        c = t.operand
        srcs = [norm_src(a) for a in c.args[:2]]
        if "1" in srcs and any("pvals" in x and "sum" in x for x in srcs):
            return ("sum-ne-1", "pvals")
    if isinstance(t, ast.Compare) and len(t.ops) == 1 and isinstance(t.ops[0], (ast.Lt, ast.LtE, ast.Gt, ast.GtE)):
        # a tolerance test on the sum of the proportions: two-sided (abs(sum - 1) > tol) or one-sided (sum - 1 > tol)
        for side, other in ((t.left, t.comparators[0]), (t.comparators[0], t.left)):
            if any(isinstance(n, ast.Name) and n.id == "pvals" for n in ast.walk(other)):
                continue
            core, absd = side, False
            if isinstance(core, ast.Call) and (call_name(core) or "").split(".")[-1] in ("abs", "absolute", "fabs") and core.args:
                core, absd = core.args[0], True
            try:
                r_ = to_rat(core)
            except Exception:
                continue
            sums = [a for a in r_.atoms() if "pvals" in a and "sum" in a]
            if len(sums) == 1 and r_.d == Poly.const(1) and set(r_.n.t) == {(), ((sums[0], 1),)} and abs(r_.n.t[()]) == 1 and abs(r_.n.t[((sums[0], 1),)]) == 1 \
                    and r_.n.t[()] == -r_.n.t[((sums[0], 1),)]:
                return ("sum-ne-1", "pvals") if absd else ("sum-one-sided", "pvals")
    if isinstance(t, ast.BoolOp) and isinstance(t.op, ast.Or):
        ks = [_guard_semantics(v) for v in t.values]
        if all(k and k[0] == "sum-one-sided" for k in ks) and len(ks) == 2:
            return ("sum-ne-1", "pvals")        # both one-sided tests in one disjunction
        if all(k and k[0] == "ne" for k in ks):
            return ("ne-or", frozenset(k[1] for k in ks))
        return None
    # quantified element tests
    def elem_bad(c):
        """(kind, is_bad) for an element-wise comparison"""
        if not (isinstance(c, ast.Compare) and len(c.ops) == 1):
            return None
        l, r = c.left, c.comparators[0]
        op = type(c.ops[0])
        if isinstance(l, ast.Constant) and l.value == 0 and not (isinstance(r, ast.Constant)):
            l, r = r, l
            op = {ast.Lt: ast.Gt, ast.LtE: ast.GtE, ast.Gt: ast.Lt, ast.GtE: ast.LtE}.get(op, op)
        zero = isinstance(r, ast.Constant) and r.value == 0
        ls = norm_src(l)
        if zero and ls == "pvals":
            return {ast.LtE: ("pvals<=0", True), ast.Gt: ("pvals<=0", False)}.get(op)
        if zero and ls == "scale[k]":
            return {ast.LtE: ("scale[k]<=0", True), ast.Gt: ("scale[k]<=0", False)}.get(op)
        if zero and isinstance(l, ast.Call) and (call_name(l) or "").split(".")[-1] in ("eigvals", "eigvalsh") and l.args and norm_src(l.args[0]) == "scale[k]":
            return {ast.Lt: ("eig<0", True), ast.GtE: ("eig<0", False)}.get(op)
        return None
    neg = False
    core = t
    if isinstance(core, ast.UnaryOp) and isinstance(core.op, ast.Not):
        neg, core = True, core.operand
    q = None
    inner = None
    if isinstance(core, ast.Call):
        cn = core.func.attr if isinstance(core.func, ast.Attribute) else (call_name(core) or "")
        if cn in ("any", "all"):
            q = cn
            is_np = isinstance(core.func, ast.Attribute) and isinstance(core.func.value, ast.Name) and core.func.value.id in ("np", "numpy")
            inner = core.args[0] if (core.args and (is_np or not isinstance(core.func, ast.Attribute))) else (core.func.value if isinstance(core.func, ast.Attribute) and not is_np else None)
    if q is None:
        eb = elem_bad(core)
        if eb is not None and not neg:      # scalar test
            return ("some-bad", eb[0]) if eb[1] else None
        return None
    eb = elem_bad(inner) if inner is not None else None
    if eb is None:
        return None
    kind, bad = eb
    # any(bad) / not all(good)  -> rejects iff some element is bad ; all(bad) / not any(good) -> only when all are bad
    if (q == "any" and bad and not neg) or (q == "all" and not bad and neg):
        return ("some-bad", kind)
    if (q == "all" and bad and not neg) or (q == "any" and not bad and neg):
        return ("all-bad", kind)
    return None


def _is_sqrt(x):
    """np.sqrt(.), math.sqrt(.), . ** 0.5, np.power(., 0.5), scipy.linalg.sqrtm / cholesky"""
    if isinstance(x, ast.Call) and (call_name(x) or "").split(".")[-1] in ("sqrt", "sqrtm", "cholesky"):
        return True
    if isinstance(x, ast.BinOp) and isinstance(x.op, ast.Pow):
        r = x.right
        if isinstance(r, ast.Constant) and r.value == 0.5:
            return True
        if isinstance(r, ast.BinOp) and isinstance(r.op, ast.Div) and norm_src(r) == "1 / 2":
            return True
    if isinstance(x, ast.Call) and (call_name(x) or "").split(".")[-1] == "power" and len(x.args) == 2 and isinstance(x.args[1], ast.Constant) and x.args[1].value == 0.5:
        return True
    return False


def _ax(v):
    if isinstance(v, Arr):
        return [a.name for a in v.axes]
    return None


def _stmt(n):
    while not isinstance(n, ast.stmt):
        n = n._parent
    return n


def _parents(n):
    p = getattr(n, "_parent", None)
    while p is not None:
        yield p
        p = getattr(p, "_parent", None)


def controls(pm, tier):
    out = []

    def mut(find, repl, rule, name, also=()):
        def apply(pm_):
            u = pm_.unit(DM)
            if find not in u.src:
                return None
            return {u.relpath: u.src.replace(find, repl, 1)}
        out.append({"name": name, "rule": rule, "apply": apply, "also": also})
    mut("X += [generator.normal(loc[k], np.sqrt(scale[k]), size=(n,))]", "X += [generator.normal(loc[k], scale[k], size=(n,))]", "C20-d", "variance used as standard deviation")
    mut("    X = [X[k][i].reshape((1, -1)) for i, k in enumerate(y)]", "    X = [X[i % K][k].reshape((1, -1)) for i, k in enumerate(y)]", "C20-c", "rows gathered with swapped indices")
    mut("    noise = generator.normal(size=(n, p))", "    noise = np.random.normal(size=(n, p))", "C20-a", "celeux_one noise from the global generator")
    mut("    X_student = multivariate_student_t(n_student, locations[-1], covariance, df, generator)", "    X_student = multivariate_student_t(n_student, locations[-1], covariance, df, random_state)", "C20-a", "gstm re-seeds the student draw")
    mut("    return np.concatenate([good_variables, noise], axis=1), y", "    return np.concatenate([good_variables, noise], axis=0), y", "C20-b", "celeux_one stacks noise as extra rows")
    mut("    if np.sum(pvals) != 1:\n        raise ValueError(\"Proportions of components do not add up to one.\")\n", "", "C20-e", "unnormalised proportions accepted")
    mut("    y = generator.choice(K, p=pvals, size=(n,))\n", "    y = generator.choice(K, p=pvals, size=(n,))\n    y = np.sort(y)\n", "C20-c", "placeholder")
    out.pop()
    mut("    X = np.sqrt(df / u) * nx + loc.reshape((1, -1))", "    X = np.sqrt(u / df) * nx + loc.reshape((1, -1))", "C20-f", "chi-square ratio inverted")
    mut("    u = generator.chisquare(df, n).reshape((-1, 1))", "    u = generator.chisquare(n, n).reshape((-1, 1))", "C20-f", "degrees of freedom of the mixing variable")
    mut("    nx = generator.multivariate_normal(np.zeros(d), scale, size=n)", "    nx = generator.multivariate_normal(loc, scale, size=n)", "C20-f", "location added twice")
    mut("    y = np.concatenate([y_gaussian, np.ones(n_student) * 3])", "    y = np.concatenate([y_gaussian, np.ones(n_student) * 2])", "C20-g", "Student-t samples labelled as a Gaussian component")
    mut("    u = generator.chisquare(df, n).reshape((-1, 1))", "    u = generator.chisquare(df, size=nx.shape)", "C20-f", "one chi-square draw per coordinate")
    mut("    n_student = n - n_gaussian", "    n_student = n // 4", "C20-i", "Student-t part loses a sample when n is not a multiple of 4")
    mut("    rot_pi_6 = np.array([[np.sqrt(3) / 2, -0.5], [0.5, np.sqrt(3) / 2]])", "    rot_pi_6 = np.array([[np.sqrt(3) / 2, 0.5], [-0.5, np.sqrt(3) / 2]])", "C20-i", "rot_pi_6 rotates the other way")
    return out
