"""Abstract scenarios for the E3 interpreter: symbolic estimators, GEMINIs and entry calls."""
from .e3_axes import Interp, Ax, Arr, Num, NoneV, StrV, Obj, Lst, Tup, Top, is_top
from .pm import AnalysisError

SYMBOLIC_HP = {
    "n_clusters": "K", "n_hidden_dim": "H", "max_clusters": "Kmax", "max_leaves": "Lmax", "n_cuts": "C",
}
OPAQUE_INT_HP = ["max_features", "max_depth", "min_samples_split", "min_samples_leaf", "max_iter"]

GEMINI_CLASSES = ["KLGEMINI", "TVGEMINI", "HellingerGEMINI", "ChiSquareGEMINI", "MMDGEMINI", "WassersteinGEMINI"]


def symbolic_estimator(I, K, batch="int", overrides=None):
    """construct K() abstractly and replace size-like hyper-parameters by symbolic dimensions"""
    obj = I.construct(K, [], {}, None)
    for hp, ax in SYMBOLIC_HP.items():
        if hp in obj.attrs:
            obj.attrs[hp] = Num("i", dimof=Ax(ax))
    for hp in OPAQUE_INT_HP:
        if hp in obj.attrs and not isinstance(obj.attrs[hp], NoneV):
            obj.attrs[hp] = Num("i")
    if "batch_size" in obj.attrs:
        obj.attrs["batch_size"] = Num("i") if batch == "int" else NoneV()
    for k, v in (overrides or {}).items():
        obj.attrs[k] = v
    return obj


def data_XY():
    return Arr([Ax("N"), Ax("D")]), NoneV()


def fit_scenario(pm, K, batch="int", overrides=None, y=None, hooks=None):
    I = Interp(pm)
    if hooks:
        for k, v in hooks.items():
            setattr(I, k, v)
    obj = symbolic_estimator(I, K, batch, overrides)
    X, Y = data_XY()
    res = I.call_method(obj, "fit", [X, y if y is not None else Y])
    return I, obj, res


def gemini_instance(I, pm, cname, ovo):
    ci = pm.classes.get(cname)
    if ci is None:
        raise AnalysisError(f"anchor vanished: class {cname}")
    return I.construct(ci, [], {"ovo": Num("b", const=ovo)}, None)


def evaluate_scenario(pm, cname, ovo, return_grad):
    I = Interp(pm)
    g = gemini_instance(I, pm, cname, ovo)
    N, K = Ax("N"), Ax("K")
    res = I.call_method(g, "evaluate", [Arr([N, K]), Arr([N, N]), Num("b", const=return_grad)])
    return I, g, res


def nonusage(events):
    return [e for e in events if e.kind != "usage"]


def dedup_events(events):
    seen, out = set(), []
    for e in events:
        k = (e.kind, id(e.node), e.msg)
        if k not in seen:
            seen.add(k)
            out.append(e)
    return out
