"""E3 - named-axis abstract interpreter for the numpy code of GemClus.

Abstract values carry symbolic axis names (N samples, K clusters, D features, ...), element kinds and, for integers,
the axis they index ("space").  The interpreter walks function bodies (both branches of undetermined tests, loops twice),
follows calls through the class-specialised call graph and records *events*:

  axis-mismatch   broadcasting / contraction / in-place update between differently named axes
  index-space     an integer of space A subscripting an axis named B, or compared (==, in) with an integer of space B
  squeeze-hazard  np.squeeze / .squeeze() without axis on an array with a symbolic axis (whose size may be 1)
  usage           (op, axis, class) with class in map | reduce | pairing | positional  - for equivariance rules

Unknown things evaluate to Top and never produce an event.
"""
import ast
import itertools

from .pm import AnalysisError, norm_src, func_params, func_defaults, PKG
from .flow import attr_chain
from .astutil import self_name
from .callgraph import resolve_name, func_unit

MAX_DEPTH = 14


# ----------------------------------------------------------------------------------------------- values
class Ax:
    """an axis: symbolic name (str), a constant size (int) or unknown (None)"""
    __slots__ = ("name",)

    def __init__(self, name):
        self.name = name

    def __eq__(self, o):
        return isinstance(o, Ax) and self.name == o.name

    def __hash__(self):
        return hash(self.name)

    @property
    def unknown(self):
        return self.name is None

    @property
    def one(self):
        return self.name == 1

    @property
    def symbolic(self):
        return isinstance(self.name, str)

    def __repr__(self):
        return "?" if self.name is None else str(self.name)


UNK = Ax(None)
ONE = Ax(1)


class Val:
    pass


class Top(Val):
    def __init__(self, why=""):
        self.why = why

    def __repr__(self):
        return f"Top({self.why})" if self.why else "Top"


class Arr(Val):
    def __init__(self, axes, elem="f", space=None, tags=None):
        self.axes = tuple(axes)
        self.elem = elem          # 'f' float, 'i' int, 'b' bool
        self.space = space        # for int arrays: Ax the values index into
        self.tags = tags or frozenset()

    def __repr__(self):
        s = "[" + ",".join(map(repr, self.axes)) + "]" + self.elem
        if self.space is not None:
            s += f"->{self.space}"
        return s

    def with_axes(self, axes):
        return Arr(axes, self.elem, self.space, self.tags)


class Num(Val):
    def __init__(self, kind="f", const=None, dimof=None, space=None):
        self.kind = kind          # 'f' | 'i' | 'b'
        self.const = const
        self.dimof = dimof        # Ax whose size this number is
        self.space = space        # Ax this integer indexes

    def __repr__(self):
        if self.const is not None:
            return f"Num({self.const!r})"
        if self.dimof is not None:
            return f"Dim({self.dimof})"
        if self.space is not None:
            return f"Idx({self.space})"
        return f"Num<{self.kind}>"


class NoneV(Val):
    def __repr__(self):
        return "None"


class _Pre:
    """an index expression that was already evaluated"""
    def __init__(self, value):
        self.value = value


class SliceV(Val):
    """a slice object built with slice(lo, hi)"""
    def __init__(self, lo=None, hi=None):
        self.lo, self.hi = lo, hi

    def __repr__(self):
        return f"slice({self.lo!r}, {self.hi!r})"


class StrV(Val):
    def __init__(self, const=None):
        self.const = const

    def __repr__(self):
        return f"Str({self.const!r})"


class Tup(Val):
    def __init__(self, items):
        self.items = list(items)

    def __repr__(self):
        return "(" + ", ".join(map(repr, self.items)) + ")"


class Lst(Val):
    """list: either explicit items or a homogeneous element with a length axis"""

    def __init__(self, items=None, elem=None, length=None):
        self.items = list(items) if items is not None else None
        self.elem = elem
        self.length = length if length is not None else (Ax(len(self.items)) if self.items is not None else UNK)

    def element(self):
        if self.items is not None:
            if not self.items:
                return Top("empty list")
            v = self.items[0]
            for w in self.items[1:]:
                v = join(v, w)
            return v
        return self.elem if self.elem is not None else Top("list elem")

    def __repr__(self):
        if self.items is not None:
            return "L" + repr(self.items)
        return f"List[{self.length}]<{self.elem!r}>"


class Dct(Val):
    def __init__(self, items=None, default=None):
        self.items = dict(items or {})
        self.default = default

    def __repr__(self):
        return "Dict" + repr(self.items)


class Obj(Val):
    def __init__(self, cls, attrs=None, kind=None):
        self.cls = cls            # ClassInfo or None
        self.attrs = attrs if attrs is not None else {}
        self.kind = kind          # 'rng' | 'optimizer' | 'module' | None

    def __repr__(self):
        return f"Obj({self.cls.name if self.cls else self.kind})"


class Fun(Val):
    def __init__(self, kind, target, bound=None, env=None, K=None, C=None):
        self.kind = kind          # 'gem' (unit, FunctionDef) | 'lambda' | 'method' | 'builtin' name
        self.target = target
        self.bound = bound
        self.env = env
        self.K = K
        self.C = C

    def __repr__(self):
        return f"Fun({self.kind})"


class Gen(Val):
    """a generator: list of yielded values"""

    def __init__(self, yields):
        self.yields = yields

    def element(self):
        if not self.yields:
            return Top("generator without yield")
        v = self.yields[0]
        for w in self.yields[1:]:
            v = join(v, w)
        return v


def is_top(v):
    return isinstance(v, Top)


def join_ax(a, b):
    if a == b:
        return a
    return UNK


def join(a, b):
    if a is b:
        return a
    if is_top(a) or is_top(b):
        return Top("join")
    if isinstance(a, Arr) and isinstance(b, Arr):
        if len(a.axes) != len(b.axes):
            return Top("rank join")
        return Arr([join_ax(x, y) for x, y in zip(a.axes, b.axes)], a.elem if a.elem == b.elem else "f",
                   a.space if a.space == b.space else None, a.tags & b.tags)
    if isinstance(a, Num) and isinstance(b, Num):
        return Num(a.kind if a.kind == b.kind else "f",
                   a.const if (a.const is not None and a.const == b.const and type(a.const) == type(b.const)) else None,
                   a.dimof if a.dimof == b.dimof else None,
                   a.space if a.space == b.space else None)
    if isinstance(a, NoneV) and isinstance(b, NoneV):
        return a
    if isinstance(a, StrV) and isinstance(b, StrV):
        return StrV(a.const if a.const == b.const else None)
    if isinstance(a, Tup) and isinstance(b, Tup) and len(a.items) == len(b.items):
        return Tup([join(x, y) for x, y in zip(a.items, b.items)])
    if isinstance(a, Lst) and isinstance(b, Lst):
        if a.items is not None and b.items is not None and len(a.items) == len(b.items):
            return Lst([join(x, y) for x, y in zip(a.items, b.items)])
        if a.items is not None and not a.items:
            return Lst(elem=b.element(), length=UNK)
        if b.items is not None and not b.items:
            return Lst(elem=a.element(), length=UNK)
        return Lst(elem=join(a.element(), b.element()), length=join_ax(a.length, b.length))
    if isinstance(a, Dct) and isinstance(b, Dct):
        keys = set(a.items) & set(b.items)
        return Dct({k: join(a.items[k], b.items[k]) for k in keys},
                   default=(join(a.default, b.default) if a.default is not None and b.default is not None else None))
    if isinstance(a, Obj) and isinstance(b, Obj) and a.cls is b.cls and a.kind == b.kind:
        return a
    if isinstance(a, Fun) and isinstance(b, Fun) and a.target is b.target:
        return a
    # Optional values: None joined with something -> keep the something but remember nullability
    if isinstance(a, NoneV):
        return _nullable(b)
    if isinstance(b, NoneV):
        return _nullable(a)
    return Top(f"join {type(a).__name__}/{type(b).__name__}")


def _nullable(v):
    if isinstance(v, Arr):
        return Arr(v.axes, v.elem, v.space, v.tags | {"nullable"})
    return v


class Event:
    def __init__(self, kind, node, unit, func, msg, detail=None, ctxpath=()):
        self.kind = kind
        self.node = node
        self.unit = unit
        self.func = func
        self.msg = msg
        self.detail = detail or {}
        self.ctxpath = ctxpath

    def stmt(self):
        n = self.node
        while n is not None and not isinstance(n, ast.stmt):
            n = getattr(n, "_parent", None)
        return n

    def __repr__(self):
        return f"<{self.kind} {self.unit.relpath if self.unit else '?'}:{getattr(self.node, 'lineno', '?')} {self.func}: {self.msg}>"


class Frame:
    def __init__(self, unit, func, qual, K, C, env):
        self.unit = unit
        self.func = func
        self.qual = qual
        self.K = K
        self.C = C
        self.env = env
        self.returns = []
        self.yields = []
        self.self_obj = None


class ReturnSignal(Exception):
    pass


# ----------------------------------------------------------------------------------------------- interpreter
class Interp:
    def __init__(self, pm, seeds=None):
        self.pm = pm
        self.events = []
        self.stack = []
        self.seeds = seeds or {}
        self.trace_funcs = set()
        self.n_exprs = 0
        self.n_top = 0
        self.memo = {}
        self.fresh_counter = itertools.count()
        self.assigned_log = []     # (attr, qual, node) learned attribute stores in execution order
        self.read_log = []
        self.on_attr_read = None
        self.on_attr_store = None
        self.update_params_checks = []
        self.loop_lengths = []             # (token, iteration-count axis) of the loops being interpreted
        self.stmt_hook = None
        self.top_log = []          # (why, function, node) for primary unknowns (not propagated ones)
        self.raise_log = []        # (function, Raise statement) executed on the interpreted paths
        self.index_checks = []     # (node, ok) subscripts whose index and axis both had a named space
        self.sub_axes = {}         # axis name -> axis name it is a prefix of (e.g. L -> Lmax)
        self.force_seeds = False
        self.generic_dims = False  # treat `symbolic dimension == literal` as False (general position)

    # ---- events
    def event(self, kind, node, msg, **detail):
        fr = self.stack[-1] if self.stack else None
        ev = Event(kind, node, fr.unit if fr else None, fr.qual if fr else "?", msg, detail,
                   tuple(f.qual for f in self.stack))
        self.events.append(ev)
        return ev

    def usage(self, node, op, axis, cls):
        if axis is None or not isinstance(axis, Ax) or not axis.symbolic:
            return
        self.event("usage", node, f"{op} along {axis}: {cls}", op=op, axis=axis.name, cls=cls)

    # ---- calling
    def call_function(self, unit, func, args, kwargs=None, K=None, C=None, self_obj=None, qual=None, node=None):
        kwargs = kwargs or {}
        if len(self.stack) >= MAX_DEPTH or any(f.func is func for f in self.stack[-6:] if False):
            return Top("depth")
        # recursion guard
        if sum(1 for f in self.stack if f.func is func) >= 1:
            return Top("recursion")
        params = func.args
        names = [a.arg for a in params.posonlyargs + params.args]
        env = {}
        pos = list(args)
        if self_obj is not None:
            pos = [self_obj] + pos
        for n, v in zip(names, pos):
            env[n] = v
        if len(pos) > len(names):
            if params.vararg:
                env[params.vararg.arg] = Tup(pos[len(names):])
        defaults = func_defaults(func)
        for k, v in kwargs.items():
            if k in names or k in [a.arg for a in params.kwonlyargs]:
                env[k] = v
            elif params.kwarg:
                env.setdefault(params.kwarg.arg, Dct({}))
        q = qual or func.name
        fr = Frame(unit, func, q, K, C, env)
        fr.self_obj = self_obj
        self.stack.append(fr)
        try:
            for n in names + [a.arg for a in params.kwonlyargs]:
                if n not in env:
                    if n in defaults:
                        env[n] = self.eval(defaults[n], fr)
                    else:
                        env[n] = Top(f"missing arg {n}")
            seed = self.seeds.get(q)
            if seed:
                for n, v in seed.items():
                    if n in env and (is_top(env[n]) or self.force_seeds):
                        env[n] = v
            is_gen = any(isinstance(n, (ast.Yield, ast.YieldFrom)) for n in _walk_own(func))
            try:
                self.exec_block(func.body, fr)
            except ReturnSignal:
                pass
            if is_gen:
                return Gen(fr.yields)
            if not fr.returns:
                return NoneV()
            v = fr.returns[0]
            for w in fr.returns[1:]:
                v = join(v, w)
            return v
        finally:
            self.stack.pop()

    def call_method(self, obj, name, args, kwargs=None, node=None, after=None):
        K = obj.cls
        if K is None:
            return Top("method on unknown object")
        C, m = self.pm.resolve_method(K, name, after=after)
        if m is None:
            return Top(f"unresolved method {name}")
        if C.external:
            return self.external_method(obj, C, name, args, kwargs or {}, node)
        # instance-level override (mlcl decoration): obj.attrs may hold a Fun under that name
        return self.call_function(C.unit, m, args, kwargs, K=K, C=C, self_obj=obj, qual=f"{C.name}.{name}", node=node)

    def external_method(self, obj, C, name, args, kwargs, node):
        if name in ("_validate_params", "set_params"):
            if name == "set_params":
                for k, v in kwargs.items():
                    obj.attrs[k] = v
                    if self.on_attr_store:
                        self.on_attr_store(obj, k, node, self.stack[-1] if self.stack else None)
            return obj if name == "set_params" else NoneV()
        if name == "_validate_data":
            x = args[0] if args else kwargs.get("X", Top())
            if isinstance(x, Arr) and len(x.axes) == 2:
                obj.attrs["n_features_in_"] = Num("i", dimof=x.axes[1])
            return x
        if name == "get_params":
            return Dct({}, default=Top())
        return Top(f"external method {C.name}.{name}")

    # ---- statements
    def exec_block(self, body, fr):
        for st in body:
            self.exec_stmt(st, fr)

    def exec_stmt(self, st, fr):
        env = fr.env
        if isinstance(st, ast.Expr):
            if isinstance(st.value, ast.Yield):
                fr.yields.append(self.eval(st.value.value, fr) if st.value.value is not None else NoneV())
                return
            self.eval(st.value, fr)
            return
        if isinstance(st, ast.Assign):
            ev0 = len(self.events)
            v = self.eval(st.value, fr)
            for t in st.targets:
                self.assign(t, v, fr, st)
            if self.stmt_hook:
                self.stmt_hook(st, fr, v, self.events[ev0:])
            return
        if isinstance(st, ast.AnnAssign):
            if st.value is not None:
                self.assign(st.target, self.eval(st.value, fr), fr, st)
            return
        if isinstance(st, ast.AugAssign):
            ev0 = len(self.events)
            cur = self.eval(_as_load(st.target), fr)
            val = self.eval(st.value, fr)
            if self.stmt_hook:
                self.stmt_hook(st, fr, cur, self.events[ev0:])
            if isinstance(st.op, ast.MatMult):
                res = self.matmul(cur, val, st)
            elif isinstance(cur, Lst) and isinstance(val, Lst) and isinstance(st.op, ast.Add):
                if cur.items is not None and val.items is not None:
                    res = Lst(cur.items + val.items)
                else:
                    ce = cur.element() if (cur.items or cur.elem is not None) else None
                    res = Lst(elem=val.element() if ce is None or is_top(ce) else join(ce, val.element()), length=UNK)
                # lists are mutated in place: keep aliasing by updating the object
                cur.items, cur.elem, cur.length = res.items, res.elem, res.length
                res = cur
            else:
                res = self.broadcast(cur, val, st, opname=type(st.op).__name__, inplace=True)
            # in-place update keeps the target's shape
            if isinstance(cur, Arr):
                res = cur if not isinstance(res, Arr) else Arr(cur.axes, res.elem if cur.elem != "f" else "f", cur.space, cur.tags)
            if isinstance(st.target, ast.Name):
                env[st.target.id] = res
            elif isinstance(st.target, ast.Attribute):
                self.assign(st.target, res, fr, st, aug=True)
            elif isinstance(st.target, ast.Subscript):
                # numpy does not accumulate repeated indices in `a[idx] op= v`
                parts = st.target.slice.elts if isinstance(st.target.slice, ast.Tuple) else [st.target.slice]
                for p_ in parts:
                    if isinstance(p_, (ast.Slice, ast.Constant)):
                        continue
                    iv = self.eval(p_, fr)
                    if (isinstance(iv, Arr) and iv.elem == "i" and iv.axes and not ({"perm", "unique"} & set(iv.tags))) or isinstance(iv, Lst):
                        self.event("fancy-inplace", st, f"in-place update through the index array {iv!r}: repeated indices are applied only once "
                                   f"(numpy buffers a[idx] op= v)", index=repr(iv))
            return
        if isinstance(st, ast.Return):
            fr.returns.append(self.eval(st.value, fr) if st.value is not None else NoneV())
            raise ReturnSignal()
        if isinstance(st, ast.If):
            t = self.eval(st.test, fr)
            truth = self.truth(t)
            if truth is True:
                self.exec_guarded(st.body, fr)
                return
            if truth is False:
                self.exec_guarded(st.orelse, fr)
                return
            env0 = dict(env)
            ret_a = ret_b = False
            refine_t, refine_f = self.refinements(st.test, fr)
            fr.env = dict(env0)
            fr.env.update(refine_t)
            sig = None
            try:
                self.exec_block(st.body, fr)
            except (ReturnSignal, LoopSignal) as e:
                ret_a = True
                sig = e
            env_a = fr.env
            fr.env = dict(env0)
            fr.env.update(refine_f)
            try:
                self.exec_block(st.orelse, fr)
            except (ReturnSignal, LoopSignal) as e:
                ret_b = True
                sig = sig or e
            env_b = fr.env
            if ret_a and ret_b:
                fr.env = env_a
                raise type(sig)()
            if ret_a:
                fr.env = env_b
            elif ret_b:
                fr.env = env_a
            else:
                fr.env = join_env(env_a, env_b)
            return
        if isinstance(st, ast.For):
            it = self.eval(st.iter, fr)
            elem = self.iter_element(it, st.iter, fr)
            env0 = dict(fr.env)
            ln = it.length if isinstance(it, Lst) else (it.axes[0] if isinstance(it, Arr) and it.axes else UNK)
            self.loop_lengths.append((object(), ln))
            try:
                for _ in range(2):
                    self.assign(st.target, elem, fr, st)
                    try:
                        self.exec_block(st.body, fr)
                    except ReturnSignal:
                        pass
                    except LoopSignal:
                        pass
            finally:
                self.loop_lengths.pop()
            fr.env = join_env(env0, fr.env, prefer_b=True)
            return
        if isinstance(st, ast.While):
            env0 = dict(fr.env)
            self.loop_lengths.append((object(), UNK))
            try:
                for _ in range(2):
                    self.eval(st.test, fr)
                    try:
                        self.exec_block(st.body, fr)
                    except ReturnSignal:
                        pass
                    except LoopSignal:
                        pass
            finally:
                self.loop_lengths.pop()
            fr.env = join_env(env0, fr.env, prefer_b=True)
            return
        if isinstance(st, (ast.Break, ast.Continue)):
            raise LoopSignal()
        if isinstance(st, ast.Raise):
            self.raise_log.append((fr.qual if hasattr(fr, "qual") else None, st))
            raise ReturnSignal()
        if isinstance(st, ast.With):
            for i in st.items:
                v = self.eval(i.context_expr, fr)
                if i.optional_vars is not None:
                    self.assign(i.optional_vars, v, fr, st)
            self.exec_block(st.body, fr)
            return
        if isinstance(st, ast.Try):
            self.exec_block(st.body, fr)
            return
        if isinstance(st, ast.FunctionDef):
            fr.env[st.name] = Fun("closure", (fr.unit, st), env=fr.env, K=fr.K, C=fr.C)
            return
        if isinstance(st, (ast.Pass, ast.Import, ast.ImportFrom, ast.Global, ast.Nonlocal, ast.Assert, ast.Delete, ast.ClassDef)):
            return

    def _signature_default(self, node, fr):
        """inspect.signature(self.__init__).parameters["p"].default : the default of p in the constructor of the CONCRETE class of self"""
        sub = node.value
        if not (isinstance(sub, ast.Subscript) and isinstance(sub.slice, ast.Constant) and isinstance(sub.slice.value, str) and isinstance(sub.value, ast.Attribute)
                and sub.value.attr == "parameters" and isinstance(sub.value.value, ast.Call)):
            return None
        call = sub.value.value
        fn = call.func
        if not ((isinstance(fn, ast.Name) and fn.id == "signature") or (isinstance(fn, ast.Attribute) and fn.attr == "signature")) or len(call.args) != 1:
            return None
        a = call.args[0]
        if not (isinstance(a, ast.Attribute) and a.attr == "__init__" and isinstance(a.value, ast.Name) and a.value.id == "self" and fr.self_obj is not None
                and fr.self_obj.cls is not None):
            return None
        C, init = self.pm.resolve_method(fr.self_obj.cls, "__init__")
        if init is None or C.external:
            return None
        params = [x.arg for x in init.args.args]
        defaults = dict(zip(params[len(params) - len(init.args.defaults):], init.args.defaults))
        d = defaults.get(sub.slice.value)
        return self.eval(d, fr) if d is not None else None

    def exec_guarded(self, body, fr):
        self.exec_block(body, fr)

    def refinements(self, test, fr):
        """env refinements for `x is None` / `x is not None` tests on local names"""
        t, f = {}, {}
        if isinstance(test, ast.Compare) and len(test.ops) == 1 and isinstance(test.left, ast.Name) \
                and isinstance(test.comparators[0], ast.Constant) and test.comparators[0].value is None:
            v = fr.env.get(test.left.id)
            if isinstance(v, Arr) and "nullable" in v.tags:
                nn = Arr(v.axes, v.elem, v.space, v.tags - {"nullable"})
                if isinstance(test.ops[0], ast.IsNot):
                    t[test.left.id] = nn
                    f[test.left.id] = NoneV()
                elif isinstance(test.ops[0], ast.Is):
                    f[test.left.id] = nn
                    t[test.left.id] = NoneV()
        return t, f

    def truth(self, v):
        if isinstance(v, Num) and v.const is not None:
            return bool(v.const)
        if isinstance(v, NoneV):
            return False
        if isinstance(v, StrV) and v.const is not None:
            return bool(v.const)
        return None

    # ---- assignment
    def assign(self, target, v, fr, st, aug=False):
        if isinstance(target, ast.Name):
            fr.env[target.id] = v
            return
        if isinstance(target, (ast.Tuple, ast.List)):
            n = len(target.elts)
            items = None
            if isinstance(v, Tup) and len(v.items) == n:
                items = v.items
            elif isinstance(v, Lst) and v.items is not None and len(v.items) == n:
                items = v.items
            elif isinstance(v, Lst):
                items = [v.element()] * n
            elif isinstance(v, Arr) and v.axes:
                # unpacking the first axis
                rest = Arr(v.axes[1:], v.elem, v.space) if len(v.axes) > 1 else Num(v.elem, space=v.space)
                items = [rest] * n
            else:
                items = [Top("unpack")] * n
            for t, x in zip(target.elts, items):
                self.assign(t, x, fr, st)
            return
        if isinstance(target, ast.Attribute):
            base = self.eval(target.value, fr)
            if isinstance(base, Obj):
                base.attrs[target.attr] = v
                if self.on_attr_store:
                    self.on_attr_store(base, target.attr, target, fr)
            elif isinstance(base, Fun):
                if not hasattr(base, "attrs"):
                    base.attrs = {}
                base.attrs[target.attr] = v
            return
        if isinstance(target, ast.Subscript):
            base = self.eval(target.value, fr)
            self.eval_subscript(base, target.slice, fr, target, store=True, value=v)
            if isinstance(base, Lst) and base.items is not None:
                idx = self.eval(target.slice, fr)
                if isinstance(idx, Num) and isinstance(idx.const, int) and -len(base.items) <= idx.const < len(base.items):
                    base.items[idx.const] = v
                else:
                    base.items = [join(x, v) for x in base.items]
            elif isinstance(base, Lst):
                base.elem = v if base.elem is None or is_top(base.elem) else join(base.elem, v)
            elif isinstance(base, Dct):
                k = self.eval(target.slice, fr)
                if isinstance(k, (StrV, Num)) and k.const is not None:
                    base.items[k.const] = v
                else:
                    base.default = v if base.default is None else join(base.default, v)
            return
        if isinstance(target, ast.Starred):
            self.assign(target.value, Lst(elem=Top()), fr, st)

    # ---- iteration
    def iter_element(self, it, node, fr):
        if isinstance(it, Gen):
            return it.element()
        if isinstance(it, Lst):
            return it.element()
        if isinstance(it, Tup):
            return Lst(it.items).element()
        if isinstance(it, Arr):
            if not it.axes:
                return Top("iterating 0-d")
            self.usage(node, "iterate", it.axes[0], "map")
            if len(it.axes) == 1:
                return Num(it.elem, space=it.space)
            return Arr(it.axes[1:], it.elem, it.space)
        if isinstance(it, Dct):
            return StrV()
        return Top("iter")

    # ---- expressions
    def eval(self, node, fr):
        self.n_exprs += 1
        v = self._eval(node, fr)
        if v is None:
            v = Top("unhandled " + type(node).__name__)
        if is_top(v):
            self.n_top += 1
            if "of Top" not in v.why and "Top" != v.why:
                self.top_log.append((v.why, fr.qual, node))
        return v

    def _eval(self, node, fr):
        env = fr.env
        if isinstance(node, ast.Constant):
            c = node.value
            if c is None:
                return NoneV()
            if isinstance(c, bool):
                return Num("b", const=c)
            if isinstance(c, int):
                return Num("i", const=c)
            if isinstance(c, float):
                return Num("f", const=c)
            if isinstance(c, str):
                return StrV(c)
            return Top("const")
        if isinstance(node, ast.Name):
            if node.id in env:
                return env[node.id]
            return self.global_name(node.id, fr)
        if isinstance(node, ast.Attribute):
            if node.attr == "default":
                v_ = self._signature_default(node, fr)
                if v_ is not None:
                    return v_
            return self.eval_attribute(node, fr)
        if isinstance(node, ast.Subscript):
            base = self.eval(node.value, fr)
            return self.eval_subscript(base, node.slice, fr, node)
        if isinstance(node, ast.BinOp):
            a = self.eval(node.left, fr)
            b = self.eval(node.right, fr)
            if isinstance(node.op, ast.MatMult):
                return self.matmul(a, b, node)
            return self.binop(a, b, node)
        if isinstance(node, ast.UnaryOp):
            v = self.eval(node.operand, fr)
            if isinstance(node.op, ast.Not):
                t = self.truth(v)
                return Num("b", const=(not t) if t is not None else None)
            if isinstance(v, Num) and v.const is not None and isinstance(node.op, ast.USub):
                return Num(v.kind, const=-v.const)
            if isinstance(v, Num):
                return Num(v.kind)
            if isinstance(v, Arr):
                return Arr(v.axes, "b" if isinstance(node.op, ast.Invert) and v.elem == "b" else v.elem)
            return v if isinstance(v, Arr) else Top("unary")
        if isinstance(node, ast.BoolOp):
            vals = [self.eval(v, fr) for v in node.values]
            ts = [self.truth(v) for v in vals]
            if isinstance(node.op, ast.And):
                if any(t is False for t in ts):
                    return Num("b", const=False)
                if all(t is True for t in ts):
                    return vals[-1]
            else:
                if any(t is True for t in ts):
                    return Num("b", const=True)
                if all(t is False for t in ts):
                    return vals[-1]
            return Num("b")
        if isinstance(node, ast.Compare):
            return self.compare(node, fr)
        if isinstance(node, ast.IfExp):
            t = self.truth(self.eval(node.test, fr))
            if t is True:
                return self.eval(node.body, fr)
            if t is False:
                return self.eval(node.orelse, fr)
            return join(self.eval(node.body, fr), self.eval(node.orelse, fr))
        if isinstance(node, ast.Tuple):
            return Tup([self.eval(e, fr) for e in node.elts])
        if isinstance(node, ast.List):
            if any(isinstance(e, ast.Starred) for e in node.elts):
                return Lst(elem=Top())
            return Lst([self.eval(e, fr) for e in node.elts])
        if isinstance(node, ast.Set):
            vs = [self.eval(e, fr) for e in node.elts]
            return Lst(elem=Lst(vs).element() if vs else Top(), length=UNK)
        if isinstance(node, ast.Dict):
            d = {}
            for k, v in zip(node.keys, node.values):
                if k is None:
                    continue
                kk = self.eval(k, fr)
                if isinstance(kk, (StrV, Num)) and kk.const is not None:
                    d[kk.const] = self.eval(v, fr)
            return Dct(d)
        if isinstance(node, ast.Call):
            return self.eval_call(node, fr)
        if isinstance(node, ast.ListComp) or isinstance(node, ast.GeneratorExp) or isinstance(node, ast.SetComp):
            return self.eval_comp(node, fr)
        if isinstance(node, ast.DictComp):
            saved = dict(fr.env)
            for g in node.generators:
                it = self.eval(g.iter, fr)
                self.assign(g.target, self.iter_element(it, g.iter, fr), fr, node)
                for c in g.ifs:
                    self.eval(c, fr)
            self.eval(node.key, fr)
            v = self.eval(node.value, fr)
            fr.env = saved
            return Dct({}, default=v)
        if isinstance(node, ast.Lambda):
            return Fun("lambda", (fr.unit, node), env=fr.env, K=fr.K, C=fr.C)
        if isinstance(node, ast.JoinedStr):
            for v in node.values:
                if isinstance(v, ast.FormattedValue):
                    self.eval(v.value, fr)
            return StrV()
        if isinstance(node, ast.Slice):
            return Top("slice")
        if isinstance(node, ast.Starred):
            return self.eval(node.value, fr)
        if isinstance(node, ast.NamedExpr):
            v = self.eval(node.value, fr)
            env[node.target.id] = v
            return v
        return None

    def eval_comp(self, node, fr):
        saved = dict(fr.env)
        length = UNK
        first = True
        for g in node.generators:
            it = self.eval(g.iter, fr)
            el = self.iter_element(it, g.iter, fr)
            if first and not g.ifs:
                if isinstance(it, Lst):
                    length = it.length
                elif isinstance(it, Arr) and it.axes:
                    length = it.axes[0]
                elif isinstance(it, Tup):
                    length = Ax(len(it.items))
            first = False
            self.assign(g.target, el, fr, node)
            for c in g.ifs:
                self.eval(c, fr)
        if len(node.generators) > 1:
            length = UNK
        v = self.eval(node.elt, fr)
        fr.env = saved
        return Lst(elem=v, length=length)

    # ---- names / attributes
    def global_name(self, name, fr):
        unit = fr.unit
        if name in ("True", "False"):
            return Num("b", const=(name == "True"))
        if name in unit.assigns:
            try:
                return self.eval(unit.assigns[name], Frame(unit, None, "<module>", None, None, {}))
            except Exception:
                return Top("module constant")
        kind, tgt = resolve_name(self.pm, unit, name)
        if kind == "function":
            return Fun("gem", tgt)
        if kind == "class":
            return Fun("class", tgt)
        if kind == "module":
            return Obj(None, kind="module:" + tgt)
        if kind == "ext":
            mod, sym, res = tgt
            if res is not None and res[0] == "module":
                return Obj(None, kind="module:" + mod + "." + sym)
            return Fun("ext", (mod, sym))
        if name in BUILTINS:
            return Fun("builtin", name)
        # shim functions defined in try/except at module level (validate_data)
        if name in unit.functions:
            return Fun("ext", ("shim", name))
        return Top(f"global {name}")

    def eval_attribute(self, node, fr):
        base = self.eval(node.value, fr)
        a = node.attr
        if isinstance(base, Obj):
            if base.kind and base.kind.startswith("module:"):
                mod = base.kind[len("module:"):]
                if mod in ("numpy", "np") or mod.startswith("numpy"):
                    if a in ("inf", "pi", "e", "nan"):
                        return Num("f")
                    if a in ("float64", "int64", "intp", "float32", "int32", "bool_"):
                        return StrV("dtype:" + a)
                    if a in ("linalg", "random"):
                        return Obj(None, kind="module:numpy." + a)
                    return Fun("np", (mod + "." + a).replace("numpy.", "", 1) if mod != "numpy" else a)
                return Fun("extmod", (mod, a))
            if a in base.attrs:
                if self.on_attr_read:
                    self.on_attr_read(base, a, node, fr, True)
                return base.attrs[a]
            if base.cls is not None:
                C, m = self.pm.resolve_method(base.cls, a)
                if m is not None:
                    return Fun("method", (C, m, a), bound=base, K=base.cls)
                for c in base.cls.mro:
                    if a in c.class_attrs:
                        return Top("class attr")
                if self.on_attr_read:
                    self.on_attr_read(base, a, node, fr, False)
                if a == "_validate_data":   # pre-1.6 scikit-learn estimator method (only met on old revisions)
                    return Fun("ext", ("sklearn.base", "_validate_data_method"), bound=base)
                return Top(f"attr {a}")
            if base.kind == "rng":
                return Fun("rng", a, bound=base)
            if base.kind == "optimizer":
                if a == "learning_rate":
                    return Num("f", const=None)
                return Fun("optimizer", a, bound=base)
            return Top(f"attr {a}")
        if isinstance(base, Arr):
            if a == "T":
                return Arr(tuple(reversed(base.axes)), base.elem, base.space)
            if a == "shape":
                return Tup([Num("i", dimof=x, const=x.name if isinstance(x.name, int) else None) for x in base.axes])
            if a == "ndim":
                return Num("i", const=len(base.axes))
            if a == "size":
                return Num("i")
            if a == "dtype":
                return StrV()
            return Fun("arrmethod", a, bound=base)
        if isinstance(base, (Lst, Dct, Tup, StrV)):
            return Fun("pymethod", a, bound=base)
        if isinstance(base, Fun) and base.kind == "class":
            C, m = self.pm.resolve_method(base.target, a)
            if m is not None and not C.external:
                return Fun("unbound", (C, m, a))
        if isinstance(base, Fun):
            attrs = getattr(base, "attrs", {})
            if a in attrs:
                return attrs[a]
            if a == "__class__" or a == "__name__":
                return StrV()
            return Top("function attribute")
        if isinstance(base, Num):
            if a in ("item",):
                return Fun("arrmethod", a, bound=base)
            return Fun("arrmethod", a, bound=base)
        return Top(f"attr {a} of {type(base).__name__}")

    # ---- comparisons
    def compare(self, node, fr):
        left = self.eval(node.left, fr)
        res = None
        for op, comp in zip(node.ops, node.comparators):
            right = self.eval(comp, fr)
            if isinstance(op, (ast.Is, ast.IsNot)):
                ln, rn = isinstance(left, NoneV), isinstance(right, NoneV)
                if rn and not is_top(left) and not (isinstance(left, Arr) and "nullable" in left.tags):
                    val = ln if isinstance(op, ast.Is) else not ln
                    res = Num("b", const=val)
                else:
                    res = Num("b")
            elif isinstance(op, (ast.In, ast.NotIn)):
                items = right.items if isinstance(right, (Tup, Lst)) else None
                if isinstance(right, Dct) and right.default is None and isinstance(left, (StrV, Num)) and left.const is not None:
                    # membership in a dictionary with literal keys: name in REGISTRY
                    hit = left.const in right.items
                    res = Num("b", const=hit if isinstance(op, ast.In) else not hit)
                    left = right
                    continue
                if isinstance(left, StrV) and left.const is not None and items is not None and all(isinstance(x, StrV) and x.const is not None for x in items):
                    # a constant name tested against a literal collection of names: name in ("kl_ova", "mi")
                    hit = left.const in [x.const for x in items]
                    res = Num("b", const=hit if isinstance(op, ast.In) else not hit)
                    left = right
                    continue
                self.check_same_space(left, right.element() if isinstance(right, (Lst,)) else
                                      (Num("i", space=right.space) if isinstance(right, Arr) else None), node, "in")
                res = Num("b")
            else:
                if isinstance(op, (ast.Eq, ast.NotEq)) and self.generic_dims and isinstance(left, Num) and isinstance(right, Num):
                    for x, y in ((left, right), (right, left)):
                        if x.dimof is not None and x.dimof.symbolic and x.const is None and isinstance(y.const, int) and y.dimof is None:
                            res = Num("b", const=isinstance(op, ast.NotEq))   # a symbolic dimension in general position differs from a literal
                    if res is not None and res.const is not None:
                        left = right
                        continue
                if isinstance(op, (ast.Eq, ast.NotEq)):
                    self.check_same_space(left, right, node, "==")
                    if isinstance(left, (StrV, Num)) and isinstance(right, (StrV, Num)) and left.const is not None \
                            and right.const is not None and type(left) == type(right):
                        eq = left.const == right.const
                        res = Num("b", const=eq if isinstance(op, ast.Eq) else not eq)
                        left = right
                        continue
                elif isinstance(left, Num) and isinstance(right, Num):
                    for x in (left, right):
                        if x.space is not None:
                            pass
                if isinstance(left, Arr) or isinstance(right, Arr):
                    r = self.broadcast(left, right, node, opname="cmp")
                    res = Arr(r.axes, "b") if isinstance(r, Arr) else Num("b")
                    # comparing an index-valued array/number with a constant is positional
                    for x, y in ((left, right), (right, left)):
                        if isinstance(x, Arr) and x.space is not None and isinstance(y, Num) and y.const is not None:
                            self.usage(node, "compare-index-const", x.space, "positional")
                elif isinstance(left, Num) and isinstance(right, Num) and left.const is not None and right.const is not None \
                        and not isinstance(op, (ast.Eq, ast.NotEq)):
                    try:
                        val = {ast.Lt: left.const < right.const, ast.LtE: left.const <= right.const,
                               ast.Gt: left.const > right.const, ast.GtE: left.const >= right.const}[type(op)]
                        res = Num("b", const=val)
                    except Exception:
                        res = Num("b")
                else:
                    res = Num("b")
            left = right
        return res

    def check_same_space(self, a, b, node, what):
        sa = a.space if isinstance(a, (Num, Arr)) else None
        sb = b.space if isinstance(b, (Num, Arr)) else None
        if sa is not None and sb is not None and sa != sb and sa.symbolic and sb.symbolic:
            self.event("index-space", node, f"{what} between an index into axis {sa} and an index into axis {sb}",
                       left=repr(a), right=repr(b))

    # ---- arithmetic
    def binop(self, a, b, node):
        if isinstance(a, Lst) and isinstance(b, Lst) and isinstance(node.op, ast.Add):
            if a.items is not None and b.items is not None:
                return Lst(a.items + b.items)
            return Lst(elem=join(a.element(), b.element()), length=UNK)
        if isinstance(a, Lst) and isinstance(b, Num) and isinstance(node.op, ast.Mult):
            if a.items is not None and len(a.items) == 1:
                return Lst(elem=a.items[0], length=b.dimof or (Ax(b.const) if isinstance(b.const, int) else UNK))
            return Lst(elem=a.element(), length=UNK)
        if isinstance(a, StrV) or isinstance(b, StrV):
            return StrV()
        if isinstance(a, Tup) and isinstance(b, Tup) and isinstance(node.op, ast.Add):
            return Tup(a.items + b.items)
        if isinstance(a, Num) and isinstance(b, Num):
            return self.num_binop(a, b, node)
        return self.broadcast(a, b, node, opname=type(node.op).__name__)

    def num_binop(self, a, b, node):
        op = node.op
        if a.const is not None and b.const is not None:
            try:
                if isinstance(op, ast.Add):
                    return Num(_k(a, b), const=a.const + b.const)
                if isinstance(op, ast.Sub):
                    return Num(_k(a, b), const=a.const - b.const)
                if isinstance(op, ast.Mult):
                    return Num(_k(a, b), const=a.const * b.const)
                if isinstance(op, ast.Div):
                    return Num("f", const=a.const / b.const)
                if isinstance(op, ast.FloorDiv):
                    return Num("i", const=a.const // b.const)
                if isinstance(op, ast.Pow):
                    return Num(_k(a, b), const=a.const ** b.const)
            except Exception:
                pass
        kind = "f" if isinstance(op, ast.Div) else _k(a, b)
        # index arithmetic: idx +/- const stays in the same space; anything else loses it
        space = None
        if isinstance(op, (ast.Add, ast.Sub)):
            if a.space is not None and b.space is None and b.dimof is None:
                space = a.space
            elif b.space is not None and a.space is None and isinstance(op, ast.Add) and a.dimof is None:
                space = b.space
        return Num(kind, space=space)

    def broadcast(self, a, b, node, opname="op", inplace=False):
        """elementwise operation with numpy broadcasting"""
        if opname == "Div" and isinstance(b, Arr) and "softmax" in b.tags:
            self.event("unsafe-denominator", node, f"division by a softmax output {b!r}: its entries underflow to exactly 0")
        if is_top(a) or is_top(b):
            return Top("broadcast of Top")
        if isinstance(a, (NoneV, StrV)) or isinstance(b, (NoneV, StrV)):
            return Top("broadcast non-numeric")
        if isinstance(a, Num) and isinstance(b, Num):
            return Num(_k(a, b))
        if isinstance(a, Num):
            return Arr(b.axes, _ke(a.kind, b.elem, opname)) if isinstance(b, Arr) else Top("bc")
        if isinstance(b, Num):
            return Arr(a.axes, _ke(b.kind, a.elem, opname), a.space if opname in ("Add", "Sub") and b.space is None else None) \
                if isinstance(a, Arr) else Top("bc")
        if not (isinstance(a, Arr) and isinstance(b, Arr)):
            return Top("bc")
        ra, rb = list(a.axes), list(b.axes)
        n = max(len(ra), len(rb))
        if inplace and len(rb) > len(ra):
            self.event("axis-mismatch", node, f"in-place update of rank {len(ra)} array {a!r} with rank {len(rb)} array {b!r}")
        ra = [ONE] * (n - len(ra)) + ra
        rb = [ONE] * (n - len(rb)) + rb
        out = []
        for i, (x, y) in enumerate(zip(ra, rb)):
            if x == y:
                out.append(x)
            elif x.one:
                if inplace and not y.unknown:
                    self.event("axis-mismatch", node, f"in-place update broadcasts axis of size 1 against {y}: {a!r} vs {b!r}")
                out.append(y)
            elif y.one:
                out.append(x)
            elif x.unknown or y.unknown:
                out.append(x if y.unknown else y)
            else:
                self.event("axis-mismatch", node, f"elementwise {opname} between axis {x} and axis {y}: {a!r} vs {b!r}",
                           left=repr(a), right=repr(b))
                out.append(x)
        elem = "b" if opname == "cmp" else ("f" if "f" in (a.elem, b.elem) or opname == "Div" else ("b" if a.elem == b.elem == "b" and opname in ("BitAnd", "BitOr", "BitXor") else "i" if opname != "Div" else "f"))
        return Arr(out, elem)

    def matmul(self, a, b, node):
        if is_top(a) or is_top(b):
            return Top("matmul of Top")
        if not (isinstance(a, Arr) and isinstance(b, Arr)):
            return Top("matmul non-array")
        if not a.axes or not b.axes:
            return Top("matmul 0-d")
        ax, bx = list(a.axes), list(b.axes)
        if len(ax) == 1 and len(bx) == 1:
            self.contract(ax[0], bx[0], node, a, b)
            return Num("f")
        if len(ax) == 1:
            self.contract(ax[0], bx[-2], node, a, b)
            return Arr(bx[:-2] + [bx[-1]])
        if len(bx) == 1:
            self.contract(ax[-1], bx[0], node, a, b)
            return Arr(ax[:-1])
        self.contract(ax[-1], bx[-2], node, a, b)
        ba, bb = ax[:-2], bx[:-2]
        n = max(len(ba), len(bb))
        ba = [ONE] * (n - len(ba)) + ba
        bb = [ONE] * (n - len(bb)) + bb
        batch = []
        for x, y in zip(ba, bb):
            if x == y or y.one or y.unknown:
                batch.append(x)
            elif x.one or x.unknown:
                batch.append(y)
            else:
                self.event("axis-mismatch", node, f"batched matmul between batch axis {x} and {y}: {a!r} @ {b!r}")
                batch.append(x)
        return Arr(batch + [ax[-2], bx[-1]])

    def contract(self, x, y, node, a, b):
        if x == y or x.unknown or y.unknown:
            self.usage(node, "contract", x if not x.unknown else y, "reduce")
            return
        if x.one and y.one:
            return
        self.event("axis-mismatch", node, f"contraction between axis {x} and axis {y}: {a!r} @ {b!r}", left=repr(a), right=repr(b))

    # ---- subscripts
    def eval_subscript(self, base, sl, fr, node, store=False, value=None):
        if isinstance(base, Tup):
            idx = self.eval(sl, fr) if not isinstance(sl, ast.Slice) else None
            if isinstance(idx, Num) and isinstance(idx.const, int) and -len(base.items) <= idx.const < len(base.items):
                return base.items[idx.const]
            if isinstance(sl, ast.Slice):
                lo = self.eval(sl.lower, fr).const if sl.lower is not None else None
                hi = self.eval(sl.upper, fr).const if sl.upper is not None else None
                try:
                    return Tup(base.items[lo:hi])
                except Exception:
                    return Top("tuple slice")
            return Lst(base.items).element()
        if isinstance(base, Lst):
            if isinstance(sl, ast.Slice):
                return Lst(elem=base.element(), length=UNK)
            idx = self.eval(sl, fr)
            if isinstance(idx, Num):
                if idx.space is not None and base.length.symbolic and idx.space != base.length and idx.space.symbolic:
                    self.event("index-space", node, f"list of length {base.length} subscripted by an index into axis {idx.space}",
                               base=repr(base), index=repr(idx))
                if base.items is not None and isinstance(idx.const, int) and -len(base.items) <= idx.const < len(base.items):
                    return base.items[idx.const]
            return base.element()
        if isinstance(base, Dct):
            k = self.eval(sl, fr)
            if isinstance(k, (StrV, Num)) and k.const is not None and k.const in base.items:
                return base.items[k.const]
            vals = list(base.items.values()) + ([base.default] if base.default is not None else [])
            if not vals:
                return Top("dict item")
            v = vals[0]
            for w in vals[1:]:
                v = join(v, w)
            return v
        if isinstance(base, StrV):
            return StrV()
        if not isinstance(base, Arr):
            if not isinstance(sl, ast.Slice):
                self.eval(sl, fr)
            return Top("subscript of " + type(base).__name__)
        # ---- array indexing
        parts = sl.elts if isinstance(sl, ast.Tuple) else [sl]
        if len(parts) == 1 and not isinstance(parts[0], (ast.Slice, ast.Constant)):
            # an index that evaluates to a tuple of index arrays (np.ix_): each item indexes one axis
            pre = self.eval(parts[0], fr)
            if isinstance(pre, Tup) and pre.items and all(isinstance(x, Arr) for x in pre.items):
                parts = [_Pre(x) for x in pre.items]
            else:
                parts = [_Pre(pre)]
        axes = list(base.axes)
        out = []
        pos = 0
        adv_axes = []       # axes produced by advanced (array) indices
        adv_int = []        # (position in out, axes) of the block produced by integer index arrays
        n_explicit = sum(1 for p in parts if not (isinstance(p, ast.Constant) and p.value is Ellipsis) and not (isinstance(p, ast.Constant) and p.value is None))
        def _is_newaxis(q):
            return (isinstance(q, ast.Constant) and q.value is None) or (isinstance(q, ast.Attribute) and q.attr == "newaxis")
        n_explicit = sum(1 for p in parts if not (isinstance(p, ast.Constant) and p.value is Ellipsis) and not _is_newaxis(p))
        for p in parts:
            if _is_newaxis(p):
                out.append(ONE)
                continue
            if isinstance(p, ast.Constant) and p.value is Ellipsis:
                skip = len(axes) - pos - (n_explicit - sum(1 for q in parts[:parts.index(p)] if not _is_newaxis(q)))
                out.extend(axes[pos:pos + max(skip, 0)])
                pos += max(skip, 0)
                continue
            if pos >= len(axes):
                self.event("axis-mismatch", node, f"too many indices for {base!r}")
                return Top("too many indices")
            ax = axes[pos]
            if isinstance(p, ast.Slice):
                full = p.lower is None and p.upper is None and p.step is None
                upper_v = None
                for q in (p.lower, p.upper, p.step):
                    if q is not None:
                        v_ = self.eval(q, fr)
                        if q is p.upper:
                            upper_v = v_
                if full:
                    out.append(ax)
                elif p.lower is None and p.step is None and isinstance(upper_v, Num) and upper_v.dimof is not None \
                        and upper_v.dimof.symbolic and (upper_v.dimof == ax or _compatible_space(upper_v.dimof, ax, self.sub_axes)):
                    # x[:n] with n the size of a declared prefix axis
                    self.usage(node, "prefix-slice", ax, "positional")
                    out.append(upper_v.dimof)
                else:
                    rev = p.lower is None and p.upper is None and p.step is not None
                    if not rev:
                        self.usage(node, "slice", ax, "positional")
                        # a[j:j+1] keeps a size-1 axis
                        if _is_unit_slice(p):
                            out.append(ONE)
                        else:
                            out.append(Ax(f"sub({ax})") if ax.symbolic else UNK)
                    else:
                        self.usage(node, "reverse", ax, "positional")
                        out.append(ax)
                pos += 1
                continue
            idx = p.value if isinstance(p, _Pre) else self.eval(p, fr)
            if isinstance(idx, SliceV):
                for b_ in (idx.lo, idx.hi):
                    if isinstance(b_, Num):
                        self.check_index(b_, ax, node, base)
                self.usage(node, "slice-object", ax, "positional")
                out.append(Ax(f"sub({ax})") if ax.symbolic else UNK)
                pos += 1
                continue
            if isinstance(idx, Num):
                self.check_index(idx, ax, node, base)
                if idx.space is None or (idx.const is not None):
                    if idx.const is not None or idx.space is None:
                        self.usage(node, "const-index" if idx.const is not None else "scalar-index", ax,
                                   "positional" if idx.const is not None else "map")
                pos += 1
                continue
            if isinstance(idx, Arr):
                if idx.elem == "b":
                    # boolean mask over one or more axes
                    k = len(idx.axes)
                    for i, (ia, ba) in enumerate(zip(idx.axes, axes[pos:pos + k])):
                        if ia != ba and ia.symbolic and ba.symbolic:
                            self.event("axis-mismatch", node, f"boolean mask axis {ia} applied to axis {ba}: {base!r}[{idx!r}]")
                    adv_axes.append(Ax(f"sel({axes[pos]})") if axes[pos].symbolic else UNK)
                    out.append(adv_axes[-1])
                    pos += k
                    continue
                self.check_index(idx, ax, node, base)
                if len(idx.axes) == 0:
                    pos += 1
                    continue
                if adv_int:
                    # several integer index arrays broadcast against each other into ONE block of axes
                    start, prev = adv_int[0]
                    a_, b_ = list(prev), list(idx.axes)
                    n_ = max(len(a_), len(b_))
                    a_ = [ONE] * (n_ - len(a_)) + a_
                    b_ = [ONE] * (n_ - len(b_)) + b_
                    merged = []
                    for x_, y_ in zip(a_, b_):
                        if x_.one:
                            merged.append(y_)
                        elif y_.one or x_ == y_ or y_.unknown:
                            merged.append(x_)
                        elif x_.unknown:
                            merged.append(y_)
                        else:
                            self.event("axis-mismatch", node, f"index arrays of axes {prev} and {idx.axes} do not broadcast")
                            merged.append(x_)
                    del out[start:start + len(prev)]
                    out[start:start] = merged
                    adv_int[0] = (start, merged)
                else:
                    adv_int.append((len(out), list(idx.axes)))
                    out.extend(idx.axes)
                pos += 1
                continue
            if isinstance(idx, Lst):
                el = idx.element()
                if isinstance(el, Num):
                    self.check_index(el, ax, node, base)
                out.append(idx.length)
                pos += 1
                continue
            return Top("index of unknown kind")
        out.extend(axes[pos:])
        if store:
            if isinstance(value, Arr):
                self.broadcast(Arr(out), value, node, opname="store", inplace=True)
            if base.elem == "i" and isinstance(value, (Num, Arr)) and value.space is not None:
                if base.space is None:
                    base.space = value.space
                elif base.space != value.space:
                    self.event("index-space", node, f"array of indices into {base.space} receives an index into {value.space}")
            return None
        if not out:
            return Num(base.elem, space=base.space)
        return Arr(out, base.elem, base.space, base.tags & frozenset({"softmax"}))

    def check_index(self, idx, ax, node, base):
        sp = idx.space
        if sp is not None and sp.symbolic and ax.symbolic:
            ok = sp == ax or _compatible_space(sp, ax, self.sub_axes)
            self.index_checks.append((node, ok, self.stack[-1].qual if self.stack else "?"))
            if not ok:
                self.event("index-space", node, f"axis {ax} of {base!r} subscripted by an index into axis {sp}",
                           base=repr(base), index=repr(idx))

    # ---- calls
    def eval_call(self, node, fr):
        is_super = isinstance(node.func, ast.Attribute) and isinstance(node.func.value, ast.Call) \
            and isinstance(node.func.value.func, ast.Name) and node.func.value.func.id == "super"
        f = None if is_super else self.eval(node.func, fr)
        args = []
        for a in node.args:
            v = self.eval(a.value if isinstance(a, ast.Starred) else a, fr)
            if isinstance(a, ast.Starred):
                if isinstance(v, Tup):
                    args.extend(v.items)
                elif isinstance(v, Lst) and v.items is not None:
                    args.extend(v.items)
                else:
                    args.append(Top("starred"))
            else:
                args.append(v)
        kwargs = {}
        for k in node.keywords:
            v = self.eval(k.value, fr)
            if k.arg is not None:
                kwargs[k.arg] = v
            elif isinstance(v, Dct) and v.default is None and all(isinstance(kk, str) for kk in v.items):
                kwargs.update(v.items)          # **{"name": value, ...} with literal keys
        # super().m(...)
        if is_super:
            if fr.self_obj is not None and fr.C is not None:
                return self.call_method(fr.self_obj, node.func.attr, args, kwargs, node, after=fr.C)
            return Top("super outside method")
        if not isinstance(f, Fun):
            if isinstance(f, Obj) and f.cls is not None:
                # calling an instance: __call__
                return self.call_method(f, "__call__", args, kwargs, node)
            return Top("call of non-function")
        from .e3_numpy import call_np, call_arr_method, call_builtin, call_ext, call_rng, call_pymethod
        if f.kind == "gem":
            unit, func = f.target
            return self.call_function(unit, func, args, kwargs, qual=func.name, node=node)
        if f.kind == "closure":
            unit, func = f.target
            saved = None
            # closures see the defining environment: run with a merged env
            fr2_env = dict(f.env)
            res = self._call_closure(unit, func, args, kwargs, fr2_env, f)
            return res
        if f.kind == "lambda":
            unit, lam = f.target
            env = dict(f.env)
            for p, a in zip([x.arg for x in lam.args.args], args):
                env[p] = a
            fr2 = Frame(unit, None, fr.qual + ".<lambda>", f.K, f.C, env)
            fr2.self_obj = fr.self_obj
            self.stack.append(fr2)
            try:
                return self.eval(lam.body, fr2)
            finally:
                self.stack.pop()
        if f.kind == "method":
            C, m, name = f.target
            obj = f.bound
            # instance-level rebinding (mlcl) is stored in attrs and found before we get here
            if C.external:
                return self.external_method(obj, C, name, args, kwargs, node)
            return self.call_function(C.unit, m, args, kwargs, K=obj.cls, C=C, self_obj=obj, qual=f"{C.name}.{name}", node=node)
        if f.kind == "unbound":
            C, m, name = f.target
            if args and isinstance(args[0], Obj):
                return self.call_function(C.unit, m, args[1:], kwargs, K=args[0].cls, C=C, self_obj=args[0],
                                          qual=f"{C.name}.{name}", node=node)
            return Top("unbound method without instance")
        if f.kind == "class":
            return self.construct(f.target, args, kwargs, node)
        if f.kind == "np":
            return call_np(self, f.target, args, kwargs, node, fr)
        if f.kind == "arrmethod":
            return call_arr_method(self, f.bound, f.target, args, kwargs, node, fr)
        if f.kind == "pymethod":
            return call_pymethod(self, f.bound, f.target, args, kwargs, node, fr)
        if f.kind == "builtin":
            return call_builtin(self, f.target, args, kwargs, node, fr)
        if f.kind in ("ext", "extmod"):
            return call_ext(self, f.target, args, kwargs, node, fr)
        if f.kind == "rng":
            return call_rng(self, f.target, args, kwargs, node, fr)
        if f.kind == "optimizer":
            if f.target == "update_params" and len(args) >= 2:
                self.check_update(args[0], args[1], node)
            return NoneV()
        return Top("call")

    def _call_closure(self, unit, func, args, kwargs, env, f):
        if sum(1 for fr in self.stack if fr.func is func) >= 1:
            return Top("recursion")
        if len(self.stack) >= MAX_DEPTH:
            return Top("depth")
        params = [a.arg for a in func.args.args]
        defaults = func_defaults(func)
        for p, a in zip(params, args):
            env[p] = a
        for k, v in kwargs.items():
            env[k] = v
        outer = self.stack[-1]
        fr = Frame(unit, func, outer.qual.split(".<")[0] + "." + func.name, f.K, f.C, env)
        fr.self_obj = outer.self_obj
        self.stack.append(fr)
        try:
            for p in params:
                if p not in env or (p not in kwargs and params.index(p) >= len(args)):
                    if p in defaults:
                        env[p] = self.eval(defaults[p], fr)
                    elif p not in env:
                        env[p] = Top("missing")
            is_gen = any(isinstance(n, (ast.Yield, ast.YieldFrom)) for n in _walk_own(func))
            try:
                self.exec_block(func.body, fr)
            except ReturnSignal:
                pass
            if is_gen:
                return Gen(fr.yields)
            if not fr.returns:
                return NoneV()
            v = fr.returns[0]
            for w in fr.returns[1:]:
                v = join(v, w)
            return v
        finally:
            self.stack.pop()

    def construct(self, ci, args, kwargs, node):
        obj = Obj(ci, {})
        C, init = self.pm.resolve_method(ci, "__init__")
        if init is not None and not C.external:
            self.call_function(C.unit, init, args, kwargs, K=ci, C=C, self_obj=obj, qual=f"{C.name}.__init__", node=node)
        return obj

    def check_update(self, weights, grads, node):
        wi = weights.items if isinstance(weights, Lst) and weights.items is not None else None
        gi = grads.items if isinstance(grads, Lst) and grads.items is not None else None
        rec = {"node": node, "weights": weights, "grads": grads, "ok": None, "problems": [], "stack": tuple(f.qual for f in self.stack)}
        self.update_params_checks.append(rec)
        if wi is None or gi is None:
            rec["ok"] = None
            return
        if len(wi) != len(gi):
            rec["ok"] = False
            rec["problems"].append(f"{len(wi)} weights but {len(gi)} gradients")
            self.event("axis-mismatch", node, f"update_params with {len(wi)} weights and {len(gi)} gradients")
            return
        ok = True
        for i, (w, g) in enumerate(zip(wi, gi)):
            if is_top(w) or is_top(g) or not isinstance(w, Arr) or not isinstance(g, Arr):
                ok = None if ok else ok
                continue
            if len(w.axes) != len(g.axes) or any(x != y and not x.unknown and not y.unknown for x, y in zip(w.axes, g.axes)):
                ok = False
                rec["problems"].append(f"gradient {i} has axes {g!r} but weight {i} has axes {w!r}")
                self.event("axis-mismatch", node, f"gradient {i} {g!r} does not have the axes of weight {i} {w!r}")
        rec["ok"] = ok


class LoopSignal(Exception):
    pass


def _walk_own(func):
    todo = list(func.body)
    while todo:
        n = todo.pop()
        yield n
        if isinstance(n, (ast.FunctionDef, ast.Lambda, ast.ClassDef)):
            continue
        for c in ast.iter_child_nodes(n):
            todo.append(c)


def _as_load(t):
    import copy
    t2 = copy.copy(t)
    t2.ctx = ast.Load()
    if hasattr(t, "_parent"):
        t2._parent = t._parent
    return t2


def _k(a, b):
    if "f" in (a.kind, b.kind):
        return "f"
    if a.kind == "b" and b.kind == "b":
        return "i"
    return "i"


def _ke(k, e, opname):
    if opname == "cmp":
        return "b"
    if opname == "Div":
        return "f"
    if "f" in (k, e):
        return "f"
    return e if e != "b" else ("b" if opname in ("BitAnd", "BitOr") else "i")


def _is_unit_slice(p):
    """a[z:z+1]"""
    if p.lower is None or p.upper is None or p.step is not None:
        return False
    u = p.upper
    if not (isinstance(u, ast.BinOp) and isinstance(u.op, ast.Add)):
        return False
    for a_, b_ in ((u.left, u.right), (u.right, u.left)):
        if norm_src(a_) == norm_src(p.lower) and isinstance(b_, ast.Constant) and b_.value == 1:
            return True
    return False


def _compatible_space(sp, ax, sub_axes=None):
    """sub(N) / sel(N) indices still index N; an index into a declared prefix axis (L of Lmax) indexes the larger axis"""
    def parent(n):
        if isinstance(n, str) and (n.startswith("sub(") or n.startswith("sel(")) and n.endswith(")"):
            return n[4:-1]
        return None

    def root(a):
        n = a.name
        while parent(n) is not None:
            n = parent(n)
        return n
    # an index into a sub-axis / selection of A is an index into A (and into any ancestor of the sub-axis), but an
    # index into the whole of A is NOT an index into a sub-axis of A (sample ids vs positions in a batch)
    n = sp.name
    while n is not None:
        if n == ax.name:
            return True
        n = parent(n)
    a, b = root(sp), ax.name
    seen = set()
    while sub_axes and a in sub_axes and a not in seen:
        seen.add(a)
        a = sub_axes[a]
        if a == b:
            return True
    return False


def join_env(a, b, prefer_b=False):
    out = {}
    for k in set(a) | set(b):
        if k in a and k in b:
            out[k] = join(a[k], b[k]) if a[k] is not b[k] else a[k]
        else:
            out[k] = a.get(k, b.get(k))
    return out


BUILTINS = {"len", "range", "enumerate", "zip", "map", "list", "tuple", "set", "dict", "min", "max", "int", "float", "bool",
            "print", "isinstance", "issubclass", "callable", "hasattr", "getattr", "sum", "abs", "sorted", "reduce", "str",
            "ValueError", "TypeError", "super", "iter", "next", "any", "all", "round", "reversed", "frozenset", "slice"}
