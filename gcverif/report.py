"""Verdict protocol: obligations, findings, known-findings file, evidence, replay files."""
import hashlib
import json
import os
import time

VERIF = os.path.dirname(os.path.dirname(os.path.abspath(__file__)))
KNOWN_FILE = os.path.join(VERIF, "known_findings.json")
EVIDENCE_DIR = os.environ.get("GCVERIF_EVIDENCE_DIR") or os.path.join(VERIF, "evidence")
OUT_DIR = os.environ.get("GCVERIF_OUT_DIR") or os.path.join(VERIF, "out")


class Finding:
    def __init__(self, rule, unit, func, stmt, message, line=None, detail=None):
        self.rule = rule          # e.g. "C03-a"
        self.unit = unit          # relpath
        self.func = func          # qualified function or class
        self.stmt = stmt          # normalised statement text (position independent)
        self.message = message
        self.line = line
        self.detail = detail or {}

    def key(self):
        return {"rule": self.rule, "unit": self.unit, "func": self.func, "stmt": self.stmt}

    def key_tuple(self):
        return (self.rule, self.unit, self.func, self.stmt)

    def to_json(self):
        d = self.key()
        d.update({"message": self.message, "line": self.line, "detail": self.detail})
        return d

    def __repr__(self):
        return f"[{self.rule}] {self.unit}:{self.line} {self.func}: {self.message} :: {self.stmt}"


class Ctx:
    """Collects what a property's rules judged."""

    def __init__(self, prop, tier="quick", quiet=False):
        self.prop = prop
        self.tier = tier
        self.quiet = quiet
        self.obligations = []     # dicts: rule, site, status ('ok'|'violated'|'undecided'), note
        self.findings = []
        self.advisories = []
        self.undecided = []
        self.notes = {}
        self.rule_docs = {}
        self.floors = {}
        self.t0 = time.time()

    # -- rule bookkeeping
    def rule(self, rid, doc, floor=0):
        """declare a rule: what it decides and why it is a necessary condition; floor = minimum number of
        obligation sites confirmed by hand on the reference tree"""
        self.rule_docs[rid] = doc
        self.floors[rid] = floor

    def ok(self, rule, site, note=""):
        self.obligations.append({"rule": rule, "site": site, "status": "ok", "note": note})

    def violation(self, rule, unit, func, stmt, message, line=None, detail=None, site=None):
        f = Finding(rule, unit, func, stmt, message, line, detail)
        self.findings.append(f)
        self.obligations.append({"rule": rule, "site": site or f"{unit}::{func}", "status": "violated", "note": message})
        return f

    def undecided_site(self, rule, site, why):
        self.undecided.append({"rule": rule, "site": site, "why": why})
        self.obligations.append({"rule": rule, "site": site, "status": "undecided", "note": why})

    def unrecognised(self, rule, site, what):
        """the construct a rule needs to judge could not be identified: the rule cannot decide (exit 2), which is
        deliberately NOT a violation - a behaviour-preserving rewrite must never raise an alarm"""
        self.undecided_site(rule, site, "construct not recognised: " + what)

    def advisory(self, rule, site, message):
        self.advisories.append({"rule": rule, "site": site, "message": message})

    def count(self, rule=None, status=None):
        return sum(1 for o in self.obligations if (rule is None or o["rule"] == rule)
                   and (status is None or o["status"] == status))


def load_known():
    if not os.path.exists(KNOWN_FILE):
        return []
    return json.load(open(KNOWN_FILE))["findings"]


def match_known(finding, known, prop):
    for k in known:
        if k.get("status") != "known" or k.get("property") != prop:
            continue
        kk = k["key"]
        if all(kk.get(x) == getattr(finding, x) for x in ("rule", "unit", "func", "stmt")):
            return k
    return None


def finalize(ctx, census, controls, assumptions, explanation, level="other", extra_cov=None):
    """Print the verdict lines, write evidence (+ replay on violation) and return the exit code."""
    known = load_known()
    new, listed = [], []
    for f in ctx.findings:
        k = match_known(f, known, ctx.prop)
        (listed if k else new).append((f, k))
    seen = set()
    for f, k in listed:
        t = f.key_tuple()
        if t in seen:
            continue
        seen.add(t)
        print(f"KNOWN-FINDING: property={ctx.prop} {k['what']} [{f.rule} {f.unit}::{f.func}]")
    for a in ctx.advisories:
        print(f"ADVISORY: property={ctx.prop} [{a['rule']}] {a['site']}: {a['message']}")

    # floors: a rule that judged fewer sites than confirmed by hand passes vacuously -> analysis error
    floor_fail = []
    for rid, fl in ctx.floors.items():
        n = ctx.count(rid)
        if n < fl:
            floor_fail.append(f"{rid}: {n} obligation sites < floor {fl}")
    control_fail = [c for c in controls if c["status"] == "missed"]

    obligations = len(ctx.obligations)
    discharged = ctx.count(status="ok")
    distinct = len({(o["rule"], o["site"]) for o in ctx.obligations if o["status"] in ("ok", "violated")})
    samples = []
    per_rule = {}
    for o in ctx.obligations:
        per_rule.setdefault(o["rule"], []).append(o)
    for rid, obs in sorted(per_rule.items()):
        for o in obs[:3]:
            samples.append(o)
    cov = {
        "explanation": explanation,
        "obligations": obligations,
        "discharged": discharged,
        "evaluations": obligations + sum(1 for c in controls if c["status"] != "n/a"),
        "distinct_nontrivial": distinct,
        "rule": "one obligation per (rule, construct) the rule must judge on the current tree; non-trivial = the "
                "analysis reached a definite judgement (ok/violated) for it; distinct = distinct (rule, site) pairs",
        "samples": samples[:60],
        "rules": {rid: {"doc": ctx.rule_docs.get(rid, ""), "sites": len(obs),
                        "ok": sum(1 for o in obs if o["status"] == "ok"),
                        "violated": sum(1 for o in obs if o["status"] == "violated"),
                        "undecided": sum(1 for o in obs if o["status"] == "undecided"),
                        "floor": ctx.floors.get(rid, 0)}
                  for rid, obs in sorted(per_rule.items())},
        "units_analysed": census,
        "controls": controls,
        "known_findings_listed": [f.to_json() for f, _ in listed],
        "advisories": ctx.advisories,
        "undecided": ctx.undecided,
        "exhaustive": False,
    }
    if extra_cov:
        cov.update(extra_cov)
    ev = {
        "property_id": ctx.prop,
        "tier": ctx.tier,
        "seed": int(os.environ.get("VERIF_SEED", "0") or 0),
        "level": level,
        "coverage": cov,
        "assumptions": assumptions,
        "wall_s": round(time.time() - ctx.t0, 3),
        "violations": len(new),
    }
    os.makedirs(EVIDENCE_DIR, exist_ok=True)
    with open(os.path.join(EVIDENCE_DIR, f"{ctx.prop}.json"), "w") as fh:
        json.dump(ev, fh, indent=1, default=str)
        fh.write("\n")

    print(f"{ctx.prop} [{ctx.tier}] units={census.get('units')} functions={census.get('functions')} "
          f"obligations={obligations} discharged={discharged} violated={ctx.count(status='violated')} "
          f"undecided={len(ctx.undecided)} controls={sum(1 for c in controls if c['status']=='fired')}/"
          f"{sum(1 for c in controls if c['status']!='n/a')} wall={ev['wall_s']}s")
    for rid, r in cov["rules"].items():
        print(f"  rule {rid}: sites={r['sites']} ok={r['ok']} violated={r['violated']} undecided={r['undecided']} "
              f"(floor {r['floor']})")

    if new:
        os.makedirs(OUT_DIR, exist_ok=True)
        seenk = set()
        for f, _ in new:
            t = f.key_tuple()
            if t in seenk:
                continue
            seenk.add(t)
            h = hashlib.sha1(json.dumps(f.key(), sort_keys=True).encode()).hexdigest()[:10]
            path = os.path.join(OUT_DIR, f"replay_{ctx.prop}_{h}.json")
            with open(path, "w") as fh:
                json.dump({"property": ctx.prop, "finding": f.to_json(),
                           "why_necessary": ctx.rule_docs.get(f.rule, "")}, fh, indent=1, default=str)
            print(f"  {f}")
            print(f"VIOLATION property={ctx.prop} replay={path}")
        return 1
    if ctx.undecided:
        for u in ctx.undecided:
            print(f"ANALYSIS-ERROR property={ctx.prop} undecided obligation [{u['rule']}] {u['site']}: {u['why']}")
        return 2
    if floor_fail or control_fail:
        for m in floor_fail:
            print(f"ANALYSIS-ERROR property={ctx.prop} instance count below floor: {m}")
        for c in control_fail:
            print(f"ANALYSIS-ERROR property={ctx.prop} positive control did not fire: {c['name']}")
        return 2
    return 0
