"""Rules shared between properties. A rule that decides a necessary condition of two properties is implemented once, in
the module of the property it was written for; the other property lists it in ADOPT and the driver reports its verdicts
under both. The adopted rule keeps its identifier, prefixed by the adopting property (e.g. `C14<C10-e`)."""
import importlib

from .report import Ctx


def run_full(mod, pm, ctx, adopt=True):
    mod.run(pm, ctx)
    if not adopt:
        return
    for entry in getattr(mod, "ADOPT", ()):
        src_prop, rules, why = entry[:3]
        only = entry[3] if len(entry) > 3 else None       # optional: adopt only the sites / findings whose text mentions this
        excl = entry[4] if len(entry) > 4 else None       # optional: ... and does not mention this (a clause of the source rule that is not a clause here)
        sm = importlib.import_module(f"gcverif.props.{src_prop.lower()}")
        sub = Ctx(src_prop, ctx.tier, quiet=True)
        sm.run(pm, sub)
        for rid in rules:
            new = f"{mod.PROP}<{rid}"
            ctx.rule(new, f"[rule of {src_prop}, also a necessary condition here: {why}] {sub.rule_docs.get(rid, '')}", floor=sub.floors.get(rid, 0))
            for o in sub.obligations:
                if o["rule"] == rid and (only is None or only in str(o.get("site", ""))) and (excl is None or excl not in str(o)):
                    ctx.obligations.append(dict(o, rule=new))
            for f in sub.findings:
                if f.rule == rid and (only is None or only in str(f)) and (excl is None or excl not in str(f)):
                    f.rule = new
                    ctx.findings.append(f)
            for u in sub.undecided:
                if u["rule"] == rid and (only is None or only in str(u.get("site", "")) or only in str(u.get("why", ""))):
                    ctx.undecided.append(dict(u, rule=new))
            if only is not None:
                ctx.floors[new] = min(ctx.floors.get(new, 0), sum(1 for o in ctx.obligations if o["rule"] == new))
