"""Rules shared between properties. A rule that decides a necessary condition of two properties is implemented once, in
the module of the property it was written for; the other property lists it in ADOPT and the driver reports its verdicts
under both. The adopted rule keeps its identifier, prefixed by the adopting property (e.g. `C14<C10-e`)."""
import importlib

from .report import Ctx


def run_full(mod, pm, ctx, adopt=True):
    mod.run(pm, ctx)
    if not adopt:
        return
    for src_prop, rules, why in getattr(mod, "ADOPT", ()):
        sm = importlib.import_module(f"gcverif.props.{src_prop.lower()}")
        sub = Ctx(src_prop, ctx.tier, quiet=True)
        sm.run(pm, sub)
        for rid in rules:
            new = f"{mod.PROP}<{rid}"
            ctx.rule(new, f"[rule of {src_prop}, also a necessary condition here: {why}] {sub.rule_docs.get(rid, '')}", floor=sub.floors.get(rid, 0))
            for o in sub.obligations:
                if o["rule"] == rid:
                    ctx.obligations.append(dict(o, rule=new))
            for f in sub.findings:
                if f.rule == rid:
                    f.rule = new
                    ctx.findings.append(f)
            for u in sub.undecided:
                if u["rule"] == rid:
                    ctx.undecided.append(dict(u, rule=new))
