#!/usr/bin/env python3
"""Driver: python3-vt gcverif/check.py <Cnn> [--tier quick|thorough] [--rev <git rev>] [--explain <replay.json>]

exit 0  every obligation of the property's rules discharged (listed known findings excepted)
exit 1  VIOLATION property=<id> replay=<path>
exit 2  ANALYSIS-ERROR (cannot judge: vanished anchor, undecided obligation, floor, control)
"""
import argparse
import importlib
import json
import os
import subprocess
import sys
import traceback

HERE = os.path.dirname(os.path.abspath(__file__))
sys.path.insert(0, os.path.dirname(HERE))

from gcverif import pm as pmmod          # noqa: E402
from gcverif.adopt import run_full
from gcverif.report import Ctx, finalize  # noqa: E402


def sources_at_rev(rev):
    repo = pmmod.REPO
    files = subprocess.check_output(["git", "-C", repo, "ls-tree", "-r", "--name-only", rev, "gemclus"], text=True).split()
    out = {}
    for f in files:
        if "/tests/" in "/" + f or not (f.endswith(".py") or f.endswith(".pyx")):
            continue
        out[f] = subprocess.check_output(["git", "-C", repo, "show", f"{rev}:{f}"], text=True)
    return out


_G = {}


def _one_control(i):
    mod, pm, tier, cs = _G["mod"], _G["pm"], _G["tier"], _G["cs"]
    return _run_control(mod, pm, tier, cs[i])


def run_controls(mod, pm, tier):
    ctl = getattr(mod, "controls", None)
    if ctl is None:
        return []
    cs = ctl(pm, tier)
    if len(cs) > 2 and os.environ.get("GCVERIF_SERIAL") != "1":
        import multiprocessing as mp
        _G.update(mod=mod, pm=pm, tier=tier, cs=cs)
        try:
            with mp.get_context("fork").Pool(min(len(cs), os.cpu_count() or 4)) as pool:
                return pool.map(_one_control, range(len(cs)))
        except Exception:
            pass
    return [_run_control(mod, pm, tier, c) for c in cs]


def _one_twin(i):
    mod, pm, twins = _G["mod"], _G["pm"], _G["twins"]
    name, rel, edits = twins[i]
    if rel not in pm.sources:
        return {"name": name, "status": "n/a", "note": "file not analysed"}
    src = pm.sources[rel]
    for a, b in edits:
        if a not in src:
            return {"name": name, "status": "n/a", "note": "edit not applicable on this tree"}
        src = src.replace(a, b)
    try:
        pm2 = pm.mutated({rel: src})
        ctx2 = Ctx(mod.PROP, "control", quiet=True)
        run_full(mod, pm2, ctx2)
    except pmmod.AnalysisError as e:
        return {"name": name, "status": "undecided", "note": str(e)[:200]}
    base = _G["base_keys"]
    new = [f for f in ctx2.findings if f.key_tuple() not in base]
    if new:
        return {"name": name, "status": "false-alarm", "note": str(new[0])[:300]}
    if ctx2.undecided:
        return {"name": name, "status": "undecided", "note": ctx2.undecided[0]["why"][:200]}
    return {"name": name, "status": "silent", "note": ""}


def run_twins(mod, pm, base_keys):
    """thorough tier: behaviour-preserving rewrites must not produce a finding (rule self-check; a failure is exit 2)"""
    sys.path.insert(0, os.path.join(os.path.dirname(HERE), "tools"))
    from benign_twins import TWINS
    import multiprocessing as mp
    _G.update(mod=mod, pm=pm, twins=TWINS, base_keys=base_keys)
    try:
        with mp.get_context("fork").Pool(min(len(TWINS), os.cpu_count() or 4)) as pool:
            return pool.map(_one_twin, range(len(TWINS)))
    except Exception:
        return [_one_twin(i) for i in range(len(TWINS))]


def apply_unified_diff(sources, diff_text):
    """apply a git unified diff to {relpath: text}; returns the changed {relpath: new text} or raises ValueError"""
    import re
    changed = {}
    files = re.split(r"^diff --git .*$", diff_text, flags=re.M)
    for chunk in files:
        m = re.search(r"^\+\+\+ b/(.+)$", chunk, flags=re.M)
        if not m:
            continue
        rel = m.group(1).strip()
        if rel not in sources:
            raise ValueError(f"{rel} is not an analysed unit")
        lines = sources[rel].split("\n")
        out, pos = [], 0
        for h in re.finditer(r"^@@ -(\d+)(?:,(\d+))? \+(\d+)(?:,(\d+))? @@.*\n((?:[ +\-\\].*\n?|\n)*)", chunk, flags=re.M):
            start = int(h.group(1)) - 1
            body = h.group(5).split("\n")
            if body and body[-1] == "":
                body = body[:-1]
            out.extend(lines[pos:start])
            pos = start
            for bl in body:
                if bl.startswith("\\"):
                    continue
                tag, txt = (bl[0], bl[1:]) if bl else (" ", "")
                if tag == " ":
                    if pos >= len(lines) or lines[pos] != txt:
                        raise ValueError(f"context mismatch in {rel} at line {pos + 1}")
                    out.append(lines[pos])
                    pos += 1
                elif tag == "-":
                    if pos >= len(lines) or lines[pos] != txt:
                        raise ValueError(f"removal mismatch in {rel} at line {pos + 1}")
                    pos += 1
                elif tag == "+":
                    out.append(txt)
        out.extend(lines[pos:])
        changed[rel] = "\n".join(out)
    if not changed:
        raise ValueError("empty diff")
    return changed


def _one_seed(i):
    mod, pm, seeds = _G["mod"], _G["pm"], _G["seeds"]
    sid, diff = seeds[i]
    try:
        changes = apply_unified_diff(pm.sources, diff)
    except ValueError as e:
        return {"id": sid, "status": "n/a", "note": f"patch no longer applies: {e}"}
    try:
        pm2 = pm.mutated(changes)
        ctx2 = Ctx(mod.PROP, "control", quiet=True)
        run_full(mod, pm2, ctx2)
    except pmmod.AnalysisError as e:
        return {"id": sid, "status": "undecided", "note": str(e)[:200]}
    except Exception as e:      # a seeded defect must never crash the analysis
        return {"id": sid, "status": "crash", "note": repr(e)[:200]}
    new = [f for f in ctx2.findings if f.key_tuple() not in _G["base_keys"]]
    if new:
        return {"id": sid, "status": "reported", "note": str(new[0])[:260]}
    return {"id": sid, "status": "undecided" if ctx2.undecided else "missed", "note": (ctx2.undecided[0]["why"][:200] if ctx2.undecided else "")}


def run_seeds(mod, pm, base_keys):
    """thorough tier: every kept seeded defect (and every re-introduced original defect) that this property's check is
    recorded to report must still be reported (regression of the catch matrix)."""
    import glob
    seeds = []
    root = os.path.join(os.path.dirname(HERE), "seeded")
    for d in sorted(glob.glob(os.path.join(root, "*"))):
        mp, pp = os.path.join(d, "meta.json"), os.path.join(d, "patch.diff")
        if not (os.path.isfile(mp) and os.path.isfile(pp)):
            continue
        m = json.load(open(mp))
        expected = set(m.get("checks", {})) | set(m.get("detected_by", {}))
        expected = {p for p in expected if (m.get("checks", {}).get(p, {}).get("exit", 1) == 1)}
        if mod.PROP in expected:
            seeds.append((os.path.basename(d), open(pp).read()))
    if not seeds:
        return []
    import multiprocessing as mp_
    _G.update(mod=mod, pm=pm, seeds=seeds, base_keys=base_keys)
    try:
        with mp_.get_context("fork").Pool(min(len(seeds), os.cpu_count() or 4)) as pool:
            return pool.map(_one_seed, range(len(seeds)))
    except Exception:
        return [_one_seed(i) for i in range(len(seeds))]


def _one_refactor(i):
    mod, pm, items = _G["mod"], _G["pm"], _G["refactors"]
    name, diff = items[i]
    try:
        changes = apply_unified_diff(pm.sources, diff)
    except ValueError as e:
        return {"name": name, "status": "n/a", "note": f"patch no longer applies: {e}"}
    try:
        pm2 = pm.mutated(changes)
        ctx2 = Ctx(mod.PROP, "control", quiet=True)
        run_full(mod, pm2, ctx2)
    except pmmod.AnalysisError as e:
        return {"name": name, "status": "undecided", "note": str(e)[:200]}
    except Exception as e:
        return {"name": name, "status": "undecided", "note": "internal error: " + repr(e)[:200]}
    new = [f for f in ctx2.findings if f.key_tuple() not in _G["base_keys"]]
    if new:
        return {"name": name, "status": "false-alarm", "note": str(new[0])[:260]}
    return {"name": name, "status": "undecided" if ctx2.undecided else "silent", "note": (ctx2.undecided[0]["why"][:200] if ctx2.undecided else "")}


def run_refactors(mod, pm, base_keys):
    """thorough tier: the behaviour-preserving refactors written by sub-agents (/verif/benign/*/patch.diff, each shipped with a digest
    program showing bit-identical behaviour) are applied in memory; a report on one of them is a false alarm of the rules (exit 2)."""
    import glob
    root = os.path.join(os.path.dirname(HERE), "benign")
    items = [(os.path.basename(os.path.dirname(p)), open(p).read()) for p in sorted(glob.glob(os.path.join(root, "*", "patch.diff")))]
    if not items:
        return []
    import multiprocessing as mp_
    _G.update(mod=mod, pm=pm, refactors=items, base_keys=base_keys)
    try:
        with mp_.get_context("fork").Pool(min(len(items), os.cpu_count() or 4)) as pool:
            return pool.map(_one_refactor, range(len(items)))
    except Exception:
        return [_one_refactor(i) for i in range(len(items))]


def _run_control(mod, pm, tier, c):
    res = []
    for c in [c]:
        try:
            changes = c["apply"](pm)
        except pmmod.AnalysisError as e:
            changes = None
            c = dict(c, why=str(e))
        if not changes:
            res.append({"name": c["name"], "rule": c["rule"], "status": "n/a",
                        "note": c.get("why", "operator found no site to mutate on this tree")})
            continue
        pre = {k for k in changes if k.endswith(".pyx")}
        try:
            pm2 = pm.mutated(changes, predesugared=pre)
            ctx2 = Ctx(mod.PROP, "control", quiet=True)
            run_full(mod, pm2, ctx2, adopt=("<" in c["rule"]))      # own rules only: adopted rules have their controls where they live
            fired = [f for f in ctx2.findings if f.rule == c["rule"] or f.rule in c.get("also", ())]
            base_keys = c.get("_base_keys", set())
            fired = [f for f in fired if f.key_tuple() not in base_keys]
            status = "fired" if fired else "missed"
            note = str(fired[0]) if fired else "mutant not reported"
        except pmmod.AnalysisError as e:
            status, note = ("fired", f"analysis refuses the mutant: {e}") if c.get("error_ok") else ("missed", f"analysis error on mutant: {e}")
        res.append({"name": c["name"], "rule": c["rule"], "status": status, "note": note[:300]})
    return res[0]


def main():
    ap = argparse.ArgumentParser()
    ap.add_argument("prop")
    ap.add_argument("--tier", default=os.environ.get("VERIF_TIER", "quick"))
    ap.add_argument("--rev", default=None, help="analyse the tree of a git revision of /repo (development only)")
    ap.add_argument("--explain", default=None)
    ap.add_argument("--no-controls", action="store_true")
    ap.add_argument("--patch", default=None, help="analyse the tree with a unified diff applied in memory (development only)")
    a = ap.parse_args()
    if a.explain:
        d = json.load(open(a.explain))
        print(json.dumps(d, indent=1))
        print("\nRe-run `python3-vt gcverif/check.py %s` to see whether the construct is still reported." % a.prop)
        return 0
    prop = a.prop.upper()
    try:
        mod = importlib.import_module(f"gcverif.props.{prop.lower()}")
        sources = sources_at_rev(a.rev) if a.rev else None
        pm = pmmod.ProgramModel(sources)
        if a.patch:
            pm = pm.mutated(apply_unified_diff(pm.sources, open(a.patch).read()))
        ctx = Ctx(prop, a.tier)
        run_full(mod, pm, ctx)
        base_keys = {f.key_tuple() for f in ctx.findings}
        controls = []
        if not a.no_controls:
            ctl = getattr(mod, "controls", None)
            if ctl is not None:
                orig = ctl

                def wrapped(pm_, tier_):
                    return [dict(c, _base_keys=base_keys) for c in orig(pm_, tier_)]
                mod_controls = type("M", (), {"PROP": mod.PROP, "run": staticmethod(mod.run), "ADOPT": getattr(mod, "ADOPT", ()),
                                              "controls": staticmethod(wrapped)})
                controls = run_controls(mod_controls, pm, a.tier)
        census = pm.census()
        extra = getattr(mod, "extra_coverage", lambda c: None)(ctx) or {}
        twins = []
        if a.tier == "thorough" and not a.no_controls:
            twins = run_twins(mod, pm, base_keys)
            extra["benign_twins"] = twins
            extra["benign_twins_summary"] = {k: sum(1 for t in twins if t["status"] == k) for k in ("silent", "undecided", "false-alarm", "n/a")}
            refs = run_refactors(mod, pm, base_keys)
            extra["agent_refactors"] = refs
            extra["agent_refactors_summary"] = {k: sum(1 for t in refs if t["status"] == k) for k in ("silent", "undecided", "false-alarm", "n/a")}
            twins = twins + [dict(t, name="refactor " + t["name"]) for t in refs if t["status"] == "false-alarm"]
            seeds_res = run_seeds(mod, pm, base_keys)
            extra["seeded_defects"] = seeds_res
            extra["seeded_defects_summary"] = {k: sum(1 for t in seeds_res if t["status"] == k) for k in ("reported", "missed", "undecided", "crash", "n/a")}
        rc = finalize(ctx, census, controls, mod.ASSUMPTIONS, mod.EXPLANATION,
                      level=getattr(mod, "LEVEL", "other"), extra_cov=extra)
        lost = [t for t in (extra.get("seeded_defects") or []) if t["status"] in ("missed", "crash")]
        if lost and rc == 0:
            for t in lost:
                print(f"ANALYSIS-ERROR property={prop} rule self-check: seeded defect '{t['id']}' is no longer reported ({t['status']})")
            return 2
        bad = [t for t in twins if t["status"] == "false-alarm"]
        if bad and rc == 0:
            for t in bad:
                print(f"ANALYSIS-ERROR property={prop} rule self-check: benign twin '{t['name']}' is reported: {t['note'][:160]}")
            return 2
        return rc
    except pmmod.AnalysisError as e:
        print(f"ANALYSIS-ERROR property={prop} {e}")
        return 2
    except Exception:
        traceback.print_exc()
        print(f"ANALYSIS-ERROR property={prop} internal error in the checker (traceback above)")
        return 2


if __name__ == "__main__":
    sys.exit(main())
