"""E6 - canonical rational forms of scalar arithmetic expressions (algebraic value numbering).

Rat = numerator/denominator, both multivariate polynomials with Fraction coefficients over atoms
(names, subscripts, attribute reads - keyed by normalised source text). Equality by cross-multiplication.
This is term normalisation of source expressions, not execution: no input is chosen.
"""
import ast
from fractions import Fraction

from .pm import norm_src, AnalysisError


class Poly:
    __slots__ = ("t",)

    def __init__(self, t=None):
        self.t = {k: v for k, v in (t or {}).items() if v != 0}

    @staticmethod
    def const(c):
        return Poly({(): Fraction(c)})

    @staticmethod
    def atom(name):
        return Poly({((name, 1),): Fraction(1)})

    def __add__(self, o):
        t = dict(self.t)
        for k, v in o.t.items():
            t[k] = t.get(k, 0) + v
        return Poly(t)

    def __neg__(self):
        return Poly({k: -v for k, v in self.t.items()})

    def __sub__(self, o):
        return self + (-o)

    def __mul__(self, o):
        t = {}
        for k1, v1 in self.t.items():
            for k2, v2 in o.t.items():
                d = dict(k1)
                for a, e in k2:
                    d[a] = d.get(a, 0) + e
                k = tuple(sorted((a, e) for a, e in d.items() if e))
                t[k] = t.get(k, 0) + v1 * v2
        return Poly(t)

    def __eq__(self, o):
        return self.t == o.t

    def __hash__(self):
        return hash(frozenset(self.t.items()))

    def is_zero(self):
        return not self.t

    def is_const(self):
        return all(k == () for k in self.t)

    def const_value(self):
        return self.t.get((), Fraction(0))

    def atoms(self):
        return {a for k in self.t for a, _ in k}

    def subs(self, mapping):
        """substitute atoms by Rat; returns Rat"""
        res = Rat(Poly.const(0))
        for k, v in self.t.items():
            term = Rat(Poly.const(v))
            for a, e in k:
                base = mapping.get(a, Rat(Poly.atom(a)))
                for _ in range(e):
                    term = term * base
            res = res + term
        return res

    def __repr__(self):
        if not self.t:
            return "0"
        parts = []
        for k, v in sorted(self.t.items(), key=lambda kv: str(kv[0])):
            mon = "*".join(a if e == 1 else f"{a}^{e}" for a, e in k)
            if not mon:
                parts.append(str(v))
            elif v == 1:
                parts.append(mon)
            else:
                parts.append(f"{v}*{mon}")
        return " + ".join(parts)


class Rat:
    __slots__ = ("n", "d")

    def __init__(self, n, d=None):
        self.n = n
        self.d = d if d is not None else Poly.const(1)

    def __add__(self, o):
        if self.d == o.d:
            return Rat(self.n + o.n, self.d)
        return Rat(self.n * o.d + o.n * self.d, self.d * o.d)

    def __neg__(self):
        return Rat(-self.n, self.d)

    def __sub__(self, o):
        return self + (-o)

    def __mul__(self, o):
        return Rat(self.n * o.n, self.d * o.d)

    def __truediv__(self, o):
        if o.n.is_zero():
            raise ZeroDivisionError
        return Rat(self.n * o.d, self.d * o.n)

    def equals(self, o):
        return (self.n * o.d - o.n * self.d).is_zero()

    def is_zero(self):
        return self.n.is_zero()

    def atoms(self):
        return self.n.atoms() | self.d.atoms()

    def subs(self, mapping):
        return self.n.subs(mapping) / self.d.subs(mapping)

    def __repr__(self):
        if self.d == Poly.const(1):
            return f"({self.n})"
        return f"({self.n}) / ({self.d})"


class NotScalarArithmetic(Exception):
    pass


def to_rat(node, env=None, atom_of=None):
    """canonical form of an arithmetic expression. env: {name: Rat} forward-substituted definitions.
    atom_of(node) -> atom key for leaves (default: normalised source)."""
    env = env or {}
    atom_of = atom_of or norm_src
    if isinstance(node, ast.Constant) and isinstance(node.value, (int, float)) and not isinstance(node.value, bool):
        return Rat(Poly.const(Fraction(node.value).limit_denominator(10 ** 12) if isinstance(node.value, float) else node.value))
    if isinstance(node, ast.Name):
        if node.id in env:
            return env[node.id]
        return Rat(Poly.atom(atom_of(node)))
    if isinstance(node, (ast.Attribute, ast.Subscript, ast.Call)):
        key = atom_of(node)
        if key in env:
            return env[key]
        return Rat(Poly.atom(key))
    if isinstance(node, ast.UnaryOp):
        v = to_rat(node.operand, env, atom_of)
        if isinstance(node.op, ast.USub):
            return -v
        if isinstance(node.op, ast.UAdd):
            return v
    if isinstance(node, ast.BinOp) and isinstance(node.op, ast.MatMult):
        return Rat(Poly.atom(atom_of(node)))        # a matrix product is an opaque factor of the scalar arithmetic around it
    if isinstance(node, ast.BinOp):
        a = to_rat(node.left, env, atom_of)
        b = to_rat(node.right, env, atom_of)
        if isinstance(node.op, ast.Add):
            return a + b
        if isinstance(node.op, ast.Sub):
            return a - b
        if isinstance(node.op, ast.Mult):
            return a * b
        if isinstance(node.op, ast.Div):
            return a / b
        if isinstance(node.op, ast.Pow) and b.n.is_const() and b.d == Poly.const(1):
            e = b.n.const_value()
            if e.denominator == 1 and 0 <= e <= 6:
                r = Rat(Poly.const(1))
                for _ in range(int(e)):
                    r = r * a
                return r
    raise NotScalarArithmetic(norm_src(node))


FLIP = {ast.Lt: ast.Gt, ast.LtE: ast.GtE, ast.Gt: ast.Lt, ast.GtE: ast.LtE}
OPNAME = {ast.Gt: ">", ast.GtE: ">=", ast.Eq: "==", ast.NotEq: "!=", ast.Lt: "<", ast.LtE: "<="}


def compare_normal(test, env=None):
    """`a OP b` -> (Rat of a-b, op string) with op in {'>','>=','==','!='} (lt/le are flipped)"""
    if not (isinstance(test, ast.Compare) and len(test.ops) == 1):
        raise NotScalarArithmetic(norm_src(test))
    a = to_rat(test.left, env)
    b = to_rat(test.comparators[0], env)
    op = type(test.ops[0])
    if op in (ast.Lt, ast.LtE):
        a, b = b, a
        op = FLIP[op]
    if op not in OPNAME:
        raise NotScalarArithmetic(norm_src(test))
    return a - b, OPNAME[op]


def _pos_scaled_equal(p, q):
    """p == c*q for a positive constant c (polynomials)"""
    if p.is_zero() or q.is_zero():
        return p.is_zero() and q.is_zero()
    if set(p.t) != set(q.t):
        return False
    k0 = next(iter(p.t))
    c = p.t[k0] / q.t[k0]
    return c > 0 and all(p.t[k] == c * q.t[k] for k in p.t)


def linear_guard_implies(test, expr_text, op, zero=0):
    """is `test` the comparison `expr_text op 0` (up to positive scaling / equivalent rewriting)?"""
    try:
        diff, top = compare_normal(test)
    except NotScalarArithmetic:
        return False
    target = to_rat(ast.parse(expr_text, mode="eval").body)
    if diff.d != Poly.const(1) or target.d != Poly.const(1):
        return False
    if top == op:
        return _pos_scaled_equal(diff.n, target.n)
    if top in ("==", "!=") and op == top:
        return _pos_scaled_equal(diff.n, target.n) or _pos_scaled_equal(diff.n, (-target).n)
    return False


def forward_env(stmts, env=None, atom_of=None):
    """forward-substitute a straight-line sequence of scalar assignments / augmented assignments.
    returns env {name: Rat}; statements that are not scalar arithmetic kill their targets."""
    env = dict(env or {})
    for st in stmts:
        if isinstance(st, ast.Assign) and len(st.targets) == 1 and isinstance(st.targets[0], ast.Name):
            try:
                env[st.targets[0].id] = to_rat(st.value, env, atom_of)
            except (NotScalarArithmetic, ZeroDivisionError):
                env.pop(st.targets[0].id, None)
        elif isinstance(st, ast.Assign) and len(st.targets) == 1 and isinstance(st.targets[0], ast.Tuple) \
                and isinstance(st.value, ast.Tuple) and len(st.targets[0].elts) == len(st.value.elts):
            vals = []
            for v in st.value.elts:
                try:
                    vals.append(to_rat(v, env, atom_of))
                except (NotScalarArithmetic, ZeroDivisionError):
                    vals.append(None)
            for t, v in zip(st.targets[0].elts, vals):
                if isinstance(t, ast.Name):
                    if v is None:
                        env.pop(t.id, None)
                    else:
                        env[t.id] = v
        elif isinstance(st, ast.AugAssign) and isinstance(st.target, ast.Name):
            try:
                cur = env.get(st.target.id, Rat(Poly.atom(st.target.id)))
                val = to_rat(st.value, env, atom_of)
                if isinstance(st.op, ast.Add):
                    env[st.target.id] = cur + val
                elif isinstance(st.op, ast.Sub):
                    env[st.target.id] = cur - val
                elif isinstance(st.op, ast.Mult):
                    env[st.target.id] = cur * val
                elif isinstance(st.op, ast.Div):
                    env[st.target.id] = cur / val
                else:
                    env.pop(st.target.id, None)
            except (NotScalarArithmetic, ZeroDivisionError):
                env.pop(st.target.id, None)
    return env
