"""Program model of GemClus: units, classes, MRO, method resolution, import resolution against the installed
packages (by parsing their sources, never importing), constant tables.

Nothing here executes GemClus or its dependencies.
"""
import ast
import copy
import glob
import hashlib
import os
import re

from .pyxdesugar import desugar, DesugarError

REPO = os.environ.get("GCVERIF_REPO", "/repo")
PKG = "gemclus"


class AnalysisError(Exception):
    """The analysis cannot judge (vanished anchor, unparsable unit, ...). Mapped to exit 2."""


def site_packages():
    cands = sorted(glob.glob("/venv/lib/python3*/site-packages"))
    if not cands:
        raise AnalysisError("no site-packages found under /venv")
    return cands[-1]


_FLIPOP = {ast.Gt: ast.Lt, ast.GtE: ast.LtE, ast.Lt: ast.Gt, ast.LtE: ast.GtE}


def _simple(e):
    return isinstance(e, (ast.Name, ast.Attribute)) or (isinstance(e, ast.Constant) and isinstance(e.value, (int, float)) and not isinstance(e.value, bool)) \
        or (isinstance(e, ast.Subscript) and isinstance(e.value, (ast.Name, ast.Attribute))) or (isinstance(e, ast.Call) and isinstance(e.func, ast.Name) and e.func.id == "len")


def _is_num(e):
    return isinstance(e, ast.Constant) and isinstance(e.value, (int, float)) and not isinstance(e.value, bool)


def _clone_expr(e):
    return ast.parse(ast.unparse(e), mode="eval").body


class _Canon(ast.NodeTransformer):
    """spelling-insensitive form used for every textual comparison of the rules:
       a > b -> b < a ; a >= b -> b <= a (one orientation of every order comparison; == / != operands sorted)
       numeric constant first in a product, last in a sum; two simple operands of * sorted
       x.shape[0] -> len(x) for a name x"""

    def visit_Compare(self, n):
        n = self.generic_visit(n)
        if len(n.ops) == 1:
            op = type(n.ops[0])
            l, r = n.left, n.comparators[0]
            if op in (ast.Gt, ast.GtE):
                return ast.Compare(left=r, ops=[_FLIPOP[op]()], comparators=[l])
            if op in (ast.Eq, ast.NotEq) and not (isinstance(r, ast.Constant)) and (isinstance(l, ast.Constant) or ast.unparse(l) > ast.unparse(r)):
                return ast.Compare(left=r, ops=[op()], comparators=[l])
        return n

    def visit_BinOp(self, n):
        n = self.generic_visit(n)
        l, r = n.left, n.right
        if isinstance(n.op, ast.Mult) and _simple(l) and _simple(r):
            if (_is_num(r) and not _is_num(l)) or (not _is_num(l) and not _is_num(r) and ast.unparse(l) > ast.unparse(r)):
                return ast.BinOp(left=r, op=n.op, right=l)
        if isinstance(n.op, ast.Add) and _is_num(l) and _simple(r) and not _is_num(r):
            return ast.BinOp(left=r, op=n.op, right=l)
        if isinstance(n.op, ast.Add) and _simple(l) and _simple(r) and not _is_num(l) and not _is_num(r) and ast.unparse(l) > ast.unparse(r):
            return ast.BinOp(left=r, op=n.op, right=l)
        return n

    _DUAL = {"argmax", "argmin", "sum", "mean", "max", "min", "prod", "cumsum"}
    _AXIS1 = {"argmax", "argmin", "sum", "mean", "max", "min", "prod", "cumsum"}

    def visit_Call(self, n):
        if isinstance(n.func, ast.Name) and n.func.id == "list" and len(n.args) == 1 and not n.keywords and isinstance(n.args[0], ast.Call) \
                and isinstance(n.args[0].func, ast.Name) and n.args[0].func.id == "map" and len(n.args[0].args) == 2 and isinstance(n.args[0].args[0], ast.Lambda) \
                and len(n.args[0].args[0].args.args) == 1 and not n.args[0].args[0].args.defaults:
            lam, it = n.args[0].args
            return self._comp(ast.ListComp(elt=lam.body, generators=[ast.comprehension(target=ast.Name(id=lam.args.args[0].arg, ctx=ast.Store()), iter=it, ifs=[], is_async=0)]))
        n = self.generic_visit(n)
        f = n.func
        if isinstance(f, ast.Attribute) and isinstance(f.value, ast.Name) and f.value.id in ("np", "numpy") and n.args:
            if f.attr in ("dot", "matmul") and len(n.args) == 2 and not n.keywords:
                return ast.BinOp(left=n.args[0], op=ast.MatMult(), right=n.args[1])
            if f.attr == "logical_not" and len(n.args) == 1:
                return ast.UnaryOp(op=ast.Invert(), operand=n.args[0])
            if f.attr in self._DUAL and not isinstance(n.args[0], (ast.List, ast.ListComp, ast.GeneratorExp, ast.Tuple, ast.Constant)):
                n = ast.Call(func=ast.Attribute(value=n.args[0], attr=f.attr, ctx=ast.Load()), args=n.args[1:], keywords=n.keywords)
        f = n.func
        if isinstance(f, ast.Attribute) and f.attr in self._AXIS1 and not n.args and not (isinstance(f.value, ast.Name) and f.value.id in ("np", "numpy")):
            ax = [k for k in n.keywords if k.arg == "axis"]
            if ax:
                n = ast.Call(func=f, args=[ax[0].value], keywords=[k for k in n.keywords if k.arg != "axis"])
        if isinstance(f, ast.Attribute) and f.attr == "dot" and len(n.args) == 1 and not n.keywords and not (isinstance(f.value, ast.Name) and f.value.id in ("np", "numpy")):
            return ast.BinOp(left=f.value, op=ast.MatMult(), right=n.args[0])
        return n

    def visit_Assign(self, n):
        n = self.generic_visit(n)
        if len(n.targets) == 1 and isinstance(n.targets[0], ast.Name) and isinstance(n.value, ast.BinOp) and isinstance(n.value.op, (ast.Add, ast.Sub, ast.Mult, ast.Div)):
            t = n.targets[0].id
            l, r = n.value.left, n.value.right
            if isinstance(l, ast.Name) and l.id == t:
                return ast.AugAssign(target=n.targets[0], op=n.value.op, value=r)
            if isinstance(r, ast.Name) and r.id == t and isinstance(n.value.op, (ast.Add, ast.Mult)):
                return ast.AugAssign(target=n.targets[0], op=n.value.op, value=l)
        return n

    # comprehensions: bound variables are named by position, a tuple target (a, b) is read as item[0], item[1]; list(map(lambda v: E, it)) is [E for v in it]
    _depth = 0

    def _comp(self, n):
        d = self._depth
        self._depth += 1
        try:
            mapping = {}

            class Ren(ast.NodeTransformer):
                def visit_Name(self_, x):
                    if x.id in mapping and isinstance(x.ctx, ast.Load):
                        return _clone_expr(mapping[x.id])
                    return x
            gens = []
            for k, g in enumerate(n.generators):
                it = Ren().visit(g.iter) if mapping else g.iter
                var = f"_c{d}_{k}"
                if isinstance(g.target, ast.Name):
                    mapping[g.target.id] = ast.Name(id=var, ctx=ast.Load())
                elif isinstance(g.target, (ast.Tuple, ast.List)) and all(isinstance(e, ast.Name) for e in g.target.elts):
                    for i, e in enumerate(g.target.elts):
                        mapping[e.id] = ast.Subscript(value=ast.Name(id=var, ctx=ast.Load()), slice=ast.Constant(value=i), ctx=ast.Load())
                else:
                    return self.generic_visit(n)
                gens.append(ast.comprehension(target=ast.Name(id=var, ctx=ast.Store()), iter=it, ifs=[Ren().visit(c) for c in g.ifs], is_async=g.is_async))
            if isinstance(n, ast.DictComp):
                new = ast.DictComp(key=Ren().visit(n.key), value=Ren().visit(n.value), generators=gens)
            else:
                new = type(n)(elt=Ren().visit(n.elt), generators=gens)
            return self.generic_visit(new)
        finally:
            self._depth -= 1

    visit_ListComp = visit_SetComp = visit_GeneratorExp = visit_DictComp = _comp

    def visit_Subscript(self, n):
        n = self.generic_visit(n)
        if isinstance(n.value, ast.Attribute) and n.value.attr == "shape" and isinstance(n.value.value, ast.Name) and isinstance(n.slice, ast.Constant) and n.slice.value == 0 \
                and isinstance(getattr(n, "ctx", None), ast.Load):
            return ast.Call(func=ast.Name(id="len", ctx=ast.Load()), args=[n.value.value], keywords=[])
        return n


_CANON = _Canon()


_NS_LIT = {}


def _canon_literal(text):
    r = _NS_LIT.get(text)
    if r is None:
        try:
            try:
                t = ast.parse(text, mode="eval")
            except SyntaxError:
                t = ast.parse(text)
            r = re.sub(r"\s+", " ", ast.unparse(ast.fix_missing_locations(_CANON.visit(t)))).strip()
        except Exception:
            r = text
        _NS_LIT[text] = r
    return r


class NS(str):
    """canonical source text. Compared with a plain string, the plain string is first brought to the same canonical spelling, so
    that the literals written in the rules need not anticipate the orientation of a comparison or the order of a product."""
    __slots__ = ()

    def __eq__(self, other):
        if isinstance(other, str) and not isinstance(other, NS):
            other = _canon_literal(other)
        return str.__eq__(self, other)

    def __ne__(self, other):
        return not self.__eq__(other)

    def __contains__(self, item):
        if str.__contains__(self, item):
            return True
        if isinstance(item, str):
            c = _canon_literal(item)
            return c != item and str.__contains__(self, c)
        return False

    def startswith(self, prefix, *a):
        if str.startswith(self, prefix, *a):
            return True
        if isinstance(prefix, str):
            c = _canon_literal(prefix)
            return c != prefix and str.startswith(self, c, *a)
        return False

    __hash__ = str.__hash__


def norm_src(node):
    """Normalised statement text (position independent, insensitive to the orientation of comparisons, the order of the operands of
    simple products, constants in sums, and len(x) / x.shape[0])."""
    cached = getattr(node, "_ns", None)
    if cached is not None:
        return NS(cached)
    try:
        raw = ast.unparse(node)
        try:
            fresh = ast.parse(raw, mode="eval") if isinstance(node, ast.expr) else ast.parse(raw)
            c = ast.fix_missing_locations(_CANON.visit(fresh))
            r = re.sub(r"\s+", " ", ast.unparse(c)).strip()
        except SyntaxError:
            r = re.sub(r"\s+", " ", raw).strip()
        try:
            node._ns = r
        except Exception:
            pass
        return NS(r)
    except Exception:
        try:
            return re.sub(r"\s+", " ", ast.unparse(node)).strip()
        except Exception:
            return ast.dump(node)


def canon_node(node):
    """the canonical AST of an expression (fresh nodes, positions copied from the original where possible)"""
    c = getattr(node, "_cn", None)
    if c is None:
        try:
            c = ast.parse(str(norm_src(node)), mode="eval").body
            for x in ast.walk(c):
                x.lineno = getattr(node, "lineno", 0)
                x.col_offset = getattr(node, "col_offset", 0)
                x.end_lineno = getattr(node, "end_lineno", 0)
                x.end_col_offset = getattr(node, "end_col_offset", 0)
            for x in ast.walk(c):
                for y in ast.iter_child_nodes(x):
                    y._parent = x
            c._parent = getattr(node, "_parent", None)
        except SyntaxError:
            c = node
        try:
            node._cn = c
        except Exception:
            pass
    return c


def ns(text):
    """canonical spelling of a source fragment (for literals the rules compare with)"""
    try:
        t = ast.parse(text, mode="eval").body
    except SyntaxError:
        t = ast.parse(text).body[0]
    return norm_src(t)


class Unit:
    def __init__(self, modname, path, src, tree, is_pyx=False, ctypes=None):
        self.modname = modname
        self.path = path
        self.relpath = os.path.relpath(path, REPO)
        self.src = src
        self.tree = tree
        self.is_pyx = is_pyx
        self.ctypes = ctypes or {}
        self.imports = {}      # local name -> (module, symbol or None)
        self.functions = {}    # qualname -> FunctionDef
        self.classes = {}      # name -> ClassDef
        self.assigns = {}      # module-level name -> value node
        for n in ast.walk(tree):
            for c in ast.iter_child_nodes(n):
                c._parent = n
        self._index()

    def _index(self):
        pkgparts = self.modname.split(".")
        is_init = os.path.basename(self.path) == "__init__.py"
        for st in self.tree.body:
            if isinstance(st, ast.Import):
                for a in st.names:
                    self.imports[a.asname or a.name.split(".")[0]] = (a.name if a.asname else a.name.split(".")[0], None)
            elif isinstance(st, ast.ImportFrom):
                if st.level:
                    base = pkgparts if is_init else pkgparts[:-1]
                    base = base[:len(base) - (st.level - 1)]
                    mod = ".".join(base + ([st.module] if st.module else []))
                else:
                    mod = st.module
                for a in st.names:
                    self.imports[a.asname or a.name] = (mod, a.name)
            elif isinstance(st, (ast.FunctionDef,)):
                self.functions[st.name] = st
            elif isinstance(st, ast.ClassDef):
                self.classes[st.name] = st
                for b in st.body:
                    if isinstance(b, ast.FunctionDef):
                        self.functions[f"{st.name}.{b.name}"] = b
            elif isinstance(st, ast.Assign):
                for t in st.targets:
                    if isinstance(t, ast.Name):
                        self.assigns[t.id] = st.value
            elif isinstance(st, ast.AnnAssign) and isinstance(st.target, ast.Name) and st.value is not None:
                self.assigns[st.target.id] = st.value
            elif isinstance(st, ast.Try):
                # try: from x import y / except ImportError: def y(...)  (the validate_data shim)
                for sub in st.body + [h2 for h in st.handlers for h2 in h.body]:
                    if isinstance(sub, ast.ImportFrom) and not sub.level:
                        for a in sub.names:
                            self.imports.setdefault(a.asname or a.name, (sub.module, a.name))
                    elif isinstance(sub, ast.FunctionDef) and sub.name not in self.imports:
                        self.functions.setdefault(sub.name, sub)

    def func(self, qualname):
        f = self.functions.get(qualname)
        if f is None:
            raise AnalysisError(f"anchor vanished: function {qualname} not found in {self.relpath}")
        return f


class ClassInfo:
    def __init__(self, name, unit, node, external=False):
        self.name = name
        self.unit = unit
        self.node = node
        self.external = external
        self.bases = []         # ClassInfo or None (unresolvable external like ABC)
        self.base_names = []
        self.methods = {}
        self.class_attrs = {}
        self.decorators = {}
        if node is not None:
            for b in node.body:
                if isinstance(b, (ast.FunctionDef, ast.AsyncFunctionDef)):
                    self.methods[b.name] = b
                elif isinstance(b, ast.Assign):
                    for t in b.targets:
                        if isinstance(t, ast.Name):
                            self.class_attrs[t.id] = b.value
                elif isinstance(b, ast.AnnAssign) and isinstance(b.target, ast.Name):
                    self.class_attrs[b.target.id] = b.value
        self.mro = None

    def __repr__(self):
        return f"<Class {self.name}{' ext' if self.external else ''}>"

    def is_abstract_method(self, name):
        f = self.methods.get(name)
        if f is None:
            return False
        return any(norm_src(d).endswith("abstractmethod") for d in f.decorator_list)

    def self_stores(self):
        """attribute names stored on self anywhere in this class's methods"""
        out = set()
        for f in self.methods.values():
            selfname = f.args.args[0].arg if f.args.args else None
            if not selfname:
                continue
            for n in ast.walk(f):
                if isinstance(n, ast.Attribute) and isinstance(n.ctx, (ast.Store,)) and isinstance(n.value, ast.Name) \
                        and n.value.id == selfname:
                    out.add(n.attr)
        return out


_EXT_UNITS = {}   # installed sources are immutable during a run: shared by all program models


def load_sources(repo=None):
    """{relpath: text} of every analysed unit of the working tree (tests excluded)."""
    repo = repo or REPO
    root = os.path.join(repo, PKG)
    if not os.path.isdir(root):
        raise AnalysisError(f"{root} does not exist")
    out = {}
    for pat in ("*.py", "*.pyx"):
        for p in sorted(glob.glob(os.path.join(root, "**", pat), recursive=True)):
            rel = os.path.relpath(p, repo)
            if "/tests/" in "/" + rel:
                continue
            out[rel] = open(p).read()
    return out


class ProgramModel:
    def __init__(self, sources=None, base=None, predesugared=()):
        """sources: {relpath: text}; base: a ProgramModel whose Units are reused for identical texts;
        predesugared: relpaths of .pyx units whose text is already the desugared python (used by mutants)."""
        self.repo = REPO
        self.site = site_packages()
        self.sources = dict(sources) if sources is not None else load_sources()
        self.predesugared = set(predesugared)
        self.units = {}
        self.classes = {}      # GemClus classes by name
        self.ext_classes = {}  # (module, name) -> ClassInfo
        self._ext_units = _EXT_UNITS
        self._load_units(base)
        self._build_classes()

    # ------------------------------------------------------------------ units
    def _load_units(self, base):
        for rel, src in sorted(self.sources.items()):
            p = os.path.join(self.repo, rel)
            if rel.endswith(".pyx"):
                mod = rel[:-4].replace(os.sep, ".")
            else:
                mod = rel[:-3].replace(os.sep, ".")
                if mod.endswith(".__init__"):
                    mod = mod[:-len(".__init__")]
            if base is not None and base.sources.get(rel) == src and (rel in base.predesugared) == (rel in self.predesugared):
                old = base.units[mod]
                # Units carry parent links inside their own tree only: safe to share
                self.units[mod] = old
                continue
            if rel.endswith(".pyx"):
                try:
                    if rel in self.predesugared:
                        py, ctypes = src, (base.units[mod].ctypes if base is not None else {})
                    else:
                        py, ctypes = desugar(src)
                    tree = ast.parse(py)
                except (DesugarError, SyntaxError) as e:
                    raise AnalysisError(f"cannot desugar/parse {rel}: {e}")
                from .renames import undo_renames
                renamed = undo_renames(tree, rel)       # pure renamings of locals (guarded by the shapes of the binding statements)
                for qn_, mapping_ in renamed.items():
                    ct_ = ctypes.get(qn_.split(".")[-1])
                    if isinstance(ct_, dict):
                        for old_, new_ in mapping_.items():
                            if old_ in ct_:
                                ct_[new_] = ct_.pop(old_)
                self.units[mod] = Unit(mod, p, py, tree, is_pyx=True, ctypes=ctypes)
                self.units[mod].renamed_locals = renamed
            else:
                try:
                    tree = ast.parse(src)
                except SyntaxError as e:
                    raise AnalysisError(f"cannot parse {rel}: {e}")
                from .renames import undo_renames
                from .shapes import undo_restructurings
                renamed = undo_renames(tree, rel)
                reshaped = undo_restructurings(tree, rel)
                if reshaped:
                    renamed.update(undo_renames(tree, rel))
                self.units[mod] = Unit(mod, p, src, tree)
                self.units[mod].renamed_locals = renamed
                self.units[mod].reshaped = reshaped
        if not self.units:
            raise AnalysisError("no units parsed")

    def mutated(self, changes, predesugared=()):
        """A new program model with some unit texts replaced ({relpath: new text})."""
        src = dict(self.sources)
        src.update(changes)
        return ProgramModel(src, base=self, predesugared=set(self.predesugared) | set(predesugared))

    def unit(self, modname):
        u = self.units.get(modname)
        if u is None:
            raise AnalysisError(f"anchor vanished: module {modname}")
        return u

    def digest(self):
        h = hashlib.sha256()
        for m in sorted(self.units):
            h.update(self.units[m].src.encode())
        return h.hexdigest()[:16]

    def census(self):
        nfun = sum(len(u.functions) for u in self.units.values())
        return {"units": len(self.units), "functions": nfun, "classes": len(self.classes),
                "digest": self.digest()}

    # ------------------------------------------------- installed package sources
    def ext_unit(self, modname):
        """Parse an installed module's source. Returns Unit, or None when only a compiled module exists."""
        if modname in self._ext_units:
            return self._ext_units[modname]
        base = os.path.join(self.site, *modname.split("."))
        cand = [base + ".py", os.path.join(base, "__init__.py")]
        u = None
        for c in cand:
            if os.path.isfile(c):
                src = open(c).read()
                try:
                    u = Unit(modname, c, src, ast.parse(src))
                except SyntaxError as e:
                    raise AnalysisError(f"cannot parse installed module {modname}: {e}")
                break
        if u is None:
            compiled = glob.glob(base + ".*.so") + glob.glob(base + ".so") + glob.glob(base + ".pyi")
            if compiled:
                u = "opaque"
            elif modname.split(".")[0] in getattr(__import__("sys"), "stdlib_module_names", ()) and not os.path.exists(
                    os.path.join(self.site, modname.split(".")[0])):
                u = "stdlib"
            else:
                u = None
        self._ext_units[modname] = u
        return u

    def ext_symbol(self, modname, symbol, depth=0):
        """Resolve `from modname import symbol` in installed sources.
        Returns ('def'|'class'|'assign', unit, node) | ('opaque', None, None) | ('stdlib', ...) | None (unresolved)."""
        if depth > 6:
            return None
        u = self.ext_unit(modname)
        if u == "opaque" or u == "stdlib":
            return (u, None, None)
        if u is None:
            return None
        if symbol in u.classes:
            return ("class", u, u.classes[symbol])
        if symbol in u.functions:
            return ("def", u, u.functions[symbol])
        if symbol in u.assigns:
            return ("assign", u, u.assigns[symbol])
        if symbol in u.imports:
            m2, s2 = u.imports[symbol]
            if s2 is None:
                return ("module", None, None)
            r = self.ext_symbol(m2, s2, depth + 1)
            if r is not None:
                return r
            # might be a submodule import: from . import x
            if self.ext_unit(m2 + "." + s2) is not None:
                return ("module", None, None)
            return None
        # a submodule?
        if self.ext_unit(modname + "." + symbol) is not None:
            return ("module", None, None)
        # star imports
        for n in u.tree.body:
            if isinstance(n, ast.ImportFrom) and any(a.name == "*" for a in n.names):
                base = modname.split(".")
                if n.level:
                    isinit = os.path.basename(u.path) == "__init__.py"
                    b = base if isinit else base[:-1]
                    b = b[:len(b) - (n.level - 1)]
                    m2 = ".".join(b + ([n.module] if n.module else []))
                else:
                    m2 = n.module
                r = self.ext_symbol(m2, symbol, depth + 1)
                if r is not None:
                    return r
        # lazily defined (__getattr__) or conditional definitions: search whole tree
        for n in ast.walk(u.tree):
            if isinstance(n, (ast.FunctionDef, ast.ClassDef)) and n.name == symbol:
                return ("def" if isinstance(n, ast.FunctionDef) else "class", u, n)
            if isinstance(n, ast.Assign):
                for t in n.targets:
                    if isinstance(t, ast.Name) and t.id == symbol:
                        return ("assign", u, n.value)
            if isinstance(n, ast.ImportFrom):
                for a in n.names:
                    if (a.asname or a.name) == symbol and n.module:
                        base = modname.split(".")
                        if n.level:
                            isinit = os.path.basename(u.path) == "__init__.py"
                            b = base if isinit else base[:-1]
                            b = b[:len(b) - (n.level - 1)]
                            m2 = ".".join(b + [n.module])
                        else:
                            m2 = n.module
                        r = self.ext_symbol(m2, a.name, depth + 1)
                        if r is not None:
                            return r
        return None

    # ------------------------------------------------------------------ classes
    def _build_classes(self):
        for u in self.units.values():
            for name, node in u.classes.items():
                self.classes[name] = ClassInfo(name, u, node)
        for ci in list(self.classes.values()):
            self._link_bases(ci)
        for ci in self.classes.values():
            ci.mro = self._c3(ci)

    def _ext_class(self, modname, name):
        r = self.ext_symbol(modname, name)
        if r is None or r[0] != "class":
            return None
        u, node = r[1], r[2]
        key = (u.modname, name)
        if key in self.ext_classes:
            return self.ext_classes[key]
        ci = ClassInfo(name, u, node, external=True)
        self.ext_classes[key] = ci
        self._link_bases(ci)
        ci.mro = self._c3(ci)
        return ci

    def _link_bases(self, ci):
        for b in ci.node.bases:
            bname = norm_src(b)
            ci.base_names.append(bname)
            target = None
            if isinstance(b, ast.Name):
                if b.id in ci.unit.classes and ci.unit.classes[b.id] is not ci.node:
                    target = self.classes.get(b.id) if not ci.external else self._ext_class(ci.unit.modname, b.id)
                elif b.id in ci.unit.imports:
                    mod, sym = ci.unit.imports[b.id]
                    if mod and mod.startswith(PKG) and not ci.external:
                        target = self._resolve_gem_class(mod, sym)
                    elif mod:
                        target = self._ext_class(mod, sym)
            ci.bases.append(target)

    def _resolve_gem_class(self, mod, sym, depth=0):
        u = self.units.get(mod)
        if u is None or depth > 5:
            return None
        if sym in u.classes:
            return self.classes.get(sym)
        if sym in u.imports:
            m2, s2 = u.imports[sym]
            return self._resolve_gem_class(m2, s2, depth + 1)
        return None

    def _c3(self, ci):
        def merge(seqs):
            res = []
            seqs = [list(s) for s in seqs if s]
            while seqs:
                for s in seqs:
                    h = s[0]
                    if not any(h in t[1:] for t in seqs):
                        break
                else:
                    raise AnalysisError(f"inconsistent MRO for {ci.name}")
                res.append(h)
                seqs = [[x for x in t if x is not h] for t in seqs]
                seqs = [t for t in seqs if t]
            return res
        bases = [b for b in ci.bases if b is not None]
        for b in bases:
            if b.mro is None:
                b.mro = self._c3(b)
        return [ci] + merge([b.mro for b in bases] + [bases])

    # ----------------------------------------------------------- resolution helpers
    def resolve_method(self, ci, name, after=None):
        """first definition of `name` in MRO of ci (after class `after` if given: super())"""
        mro = ci.mro
        if after is not None:
            mro = mro[mro.index(after) + 1:]
        for c in mro:
            if name in c.methods:
                return c, c.methods[name]
        return None, None

    def subclasses(self, ci, strict=False):
        return [c for c in self.classes.values() if ci in c.mro and (c is not ci or not strict)]

    def estimators(self):
        """Concrete GemClus estimators: classes whose MRO contains sklearn BaseEstimator."""
        out = []
        for c in self.classes.values():
            if any(m.external and m.name == "BaseEstimator" for m in c.mro):
                out.append(c)
        return sorted(out, key=lambda c: c.name)

    def concrete_estimators(self):
        """Estimators exported by a package __init__ (the public ones; DiscriminativeModel is abstract)."""
        out = []
        for c in self.estimators():
            if self.abstract_methods_left(c):
                continue
            out.append(c)
        return out

    def abstract_methods_left(self, ci):
        left = []
        names = set()
        for c in ci.mro:
            if c.external:
                continue
            for m in c.methods:
                if c.is_abstract_method(m):
                    names.add(m)
        for n in sorted(names):
            c, _ = self.resolve_method(ci, n)
            if c is not None and c.is_abstract_method(n):
                left.append(n)
        return left

    def attr_universe(self, ci):
        """names resolvable as self.<name> for an instance of ci: methods, class attributes, stored attributes of
        every class in the MRO (GemClus and installed), plus what scikit-learn's validate_data sets."""
        names = set()
        for c in ci.mro:
            names |= set(c.methods) | set(c.class_attrs) | c.self_stores()
            if c.node is not None:
                for b in c.node.body:  # properties / nested defs
                    if isinstance(b, ast.FunctionDef):
                        names.add(b.name)
        names |= self.validate_data_sets()
        names |= {"__class__", "__dict__", "__name__"}
        return names

    _vd_cache = None

    def validate_data_sets(self):
        """Attributes that sklearn.utils.validation.validate_data assigns on the estimator (found by scanning the
        helpers it calls for `estimator.<name> = ...` / `setattr`)."""
        if ProgramModel._vd_cache is not None:
            return ProgramModel._vd_cache
        out = set()
        u = self.ext_unit("sklearn.utils.validation")
        if u in (None, "opaque", "stdlib"):
            raise AnalysisError("installed sklearn.utils.validation has no source")
        vd = u.functions.get("validate_data")
        if vd is not None:
            todo, seen = [vd], set()
            while todo:
                f = todo.pop()
                if f.name in seen:
                    continue
                seen.add(f.name)
                first = f.args.posonlyargs[0].arg if f.args.posonlyargs else (f.args.args[0].arg if f.args.args else None)
                for n in ast.walk(f):
                    if isinstance(n, ast.Attribute) and isinstance(n.ctx, ast.Store) and isinstance(n.value, ast.Name) \
                            and n.value.id == first:
                        out.add(n.attr)
                    if isinstance(n, ast.Call) and isinstance(n.func, ast.Name) and n.func.id in u.functions \
                            and n.args and isinstance(n.args[0], ast.Name) and n.args[0].id == first:
                        todo.append(u.functions[n.func.id])
        ProgramModel._vd_cache = out
        return out

    # ------------------------------------------------------------- constants
    def ext_dict_keys(self, modname, symbol):
        """Key set of a module-level dict literal in an installed module (e.g. PAIRWISE_KERNEL_FUNCTIONS)."""
        r = self.ext_symbol(modname, symbol)
        if r is None or r[0] != "assign":
            raise AnalysisError(f"cannot resolve constant table {modname}.{symbol}")
        node = r[2]
        if isinstance(node, ast.Dict):
            keys = []
            for k in node.keys:
                if isinstance(k, ast.Constant) and isinstance(k.value, str):
                    keys.append(k.value)
                else:
                    raise AnalysisError(f"non-literal key in {modname}.{symbol}")
            return frozenset(keys)
        raise AnalysisError(f"{modname}.{symbol} is not a dict literal")


def func_params(f):
    a = f.args
    names = [x.arg for x in a.posonlyargs + a.args + a.kwonlyargs]
    return names


def func_defaults(f):
    """param name -> default node"""
    a = f.args
    pos = a.posonlyargs + a.args
    out = {}
    for p, d in zip(pos[len(pos) - len(a.defaults):], a.defaults):
        out[p.arg] = d
    for p, d in zip(a.kwonlyargs, a.kw_defaults):
        if d is not None:
            out[p.arg] = d
    return out
